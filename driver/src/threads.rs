// C19 workload: many threads, each following a script of set_default /
// default() / rounding operations, with yields, sleeps and nested spawns.
//
// Spec file:
//   battery <bid> <request line>      one request of battery <bid> (repeatable)
//   script <sid> <step> <step> ...    steps: set:<Mode> get run:<bid> yield
//                                     sleep:<us> spawn:<sid> join
//   main <sid> <sid> ...              scripts started from the main thread
//
// Output: one line per event, ordered by a global atomic sequence number:
//   <thread path> <local seq> <global seq> set <Mode>
//   <thread path> <local seq> <global seq> get <Mode>
//   <thread path> <local seq> <global seq> op <bid> <index> <response>
// The thread path identifies a thread uniquely ("2" = third main script,
// "2.0" = its first child ...). The monitor replays every thread's own
// history against the oracle.

use std::collections::HashMap;
use std::sync::atomic::{AtomicU64, Ordering};
use std::sync::Arc;

use crate::*;

struct Spec {
    batteries: HashMap<String, Vec<String>>,
    scripts: HashMap<String, Vec<String>>,
    main: Vec<String>,
}

static GSEQ: AtomicU64 = AtomicU64::new(0);

/// Events recorded while a thread shuts down (from a thread-local's destructor).
static EXIT_EVENTS: std::sync::Mutex<Vec<String>> = std::sync::Mutex::new(Vec::new());

/// A driver-side thread-local that is initialised BEFORE the thread touches fpdec, so that its destructor runs
/// late during thread shutdown. In the destructor the thread asks once more for its default mode and performs
/// two rounding operations: "default() always returns the mode last set by the same thread" - also then.
struct ExitProbe {
    path: std::cell::RefCell<String>,
    base: u64,
}

impl Drop for ExitProbe {
    fn drop(&mut self) {
        let path = self.path.borrow().clone();
        if path.is_empty() {
            return;
        }
        let m = RoundingMode::default();
        let g = GSEQ.fetch_add(1, Ordering::SeqCst);
        let mut evs = vec![format!("{} {} {} get {}", path, self.base, g, mode_name(m))];
        for (i, r) in ["round D25:1 0", "divr vv D-1:0 D3:0 2"].iter().enumerate() {
            let resp = run_line(r);
            let g = GSEQ.fetch_add(1, Ordering::SeqCst);
            evs.push(format!("{} {} {} op exit {} {}", path, self.base + 1 + i as u64, g, i, resp));
        }
        if let Ok(mut v) = EXIT_EVENTS.lock() {
            v.extend(evs);
        }
    }
}

thread_local! {
    static EXIT_PROBE: ExitProbe = ExitProbe { path: std::cell::RefCell::new(String::new()), base: 1_000_000 };
    // a second probe that is armed only at the END of the thread's script, i.e. registered after whatever
    // thread-locals the library created: its destructor runs in the other order relative to them
    static EXIT_PROBE_LATE: ExitProbe = ExitProbe { path: std::cell::RefCell::new(String::new()), base: 2_000_000 };
}

fn run_script(spec: Arc<Spec>, sid: String, path: String) -> Vec<String> {
    // first thing in the thread, before any fpdec call: arm the exit probe
    EXIT_PROBE.with(|p| *p.path.borrow_mut() = path.clone());
    let mut events: Vec<String> = Vec::new();
    let mut lseq = 0_u64;
    let mut children: Vec<std::thread::JoinHandle<Vec<String>>> = Vec::new();
    let mut n_children = 0_usize;
    let mut all: Vec<String> = Vec::new();
    let steps = spec.scripts.get(&sid).expect("unknown script").clone();
    let mut ev = |events: &mut Vec<String>, text: String| {
        let g = GSEQ.fetch_add(1, Ordering::SeqCst);
        events.push(format!("{} {} {} {}", path, lseq, g, text));
        lseq += 1;
    };
    for step in steps {
        let (kind, val) = match step.split_once(':') {
            Some((k, v)) => (k, v),
            None => (step.as_str(), ""),
        };
        match kind {
            "set" => {
                let m = mode_by_name(val).expect("unknown mode");
                RoundingMode::set_default(m);
                ev(&mut events, format!("set {}", val));
            }
            "get" => {
                let m = RoundingMode::default();
                ev(&mut events, format!("get {}", mode_name(m)));
            }
            "run" => {
                let reqs = spec.batteries.get(val).expect("unknown battery");
                for (i, r) in reqs.iter().enumerate() {
                    let resp = run_line(r);
                    ev(&mut events, format!("op {} {} {}", val, i, resp));
                }
            }
            "yield" => std::thread::yield_now(),
            "sleep" => {
                let us: u64 = val.parse().expect("bad sleep");
                std::thread::sleep(std::time::Duration::from_micros(us));
            }
            "spawn" => {
                let spec2 = spec.clone();
                let sid2 = val.to_string();
                let path2 = format!("{}.{}", path, n_children);
                n_children += 1;
                children.push(std::thread::spawn(move || {
                    install_thread();
                    run_script(spec2, sid2, path2)
                }));
            }
            "join" => {
                for c in children.drain(..) {
                    all.extend(c.join().expect("child panicked"));
                }
            }
            _ => panic!("unknown step {}", step),
        }
    }
    for c in children.drain(..) {
        all.extend(c.join().expect("child panicked"));
    }
    all.extend(events);
    // arm the late probe (first touched now, after the library's own thread-locals)
    EXIT_PROBE_LATE.with(|p| *p.path.borrow_mut() = path.clone());
    all
}

fn install_thread() {}

pub fn run(args: &[String]) -> i32 {
    let path = &args[0];
    let text = std::fs::read_to_string(path).expect("cannot read spec");
    let mut spec = Spec {
        batteries: HashMap::new(),
        scripts: HashMap::new(),
        main: Vec::new(),
    };
    for line in text.lines() {
        let line = line.trim();
        if line.is_empty() || line.starts_with('#') {
            continue;
        }
        let (kw, rest) = line.split_once(' ').unwrap_or((line, ""));
        match kw {
            "battery" => {
                let (bid, req) = rest.split_once(' ').expect("battery needs id and request");
                spec.batteries.entry(bid.to_string()).or_default().push(req.to_string());
            }
            "script" => {
                let mut it = rest.split_ascii_whitespace();
                let sid = it.next().expect("script needs id").to_string();
                spec.scripts.insert(sid, it.map(|s| s.to_string()).collect());
            }
            "main" => {
                spec.main = rest.split_ascii_whitespace().map(|s| s.to_string()).collect();
            }
            _ => panic!("unknown spec line {}", line),
        }
    }
    spec.batteries.entry("exit".to_string()).or_default();
    let spec = Arc::new(spec);
    let mut handles = Vec::new();
    for (i, sid) in spec.main.iter().enumerate() {
        let spec2 = spec.clone();
        let sid2 = sid.clone();
        handles.push(std::thread::spawn(move || {
            install_thread();
            run_script(spec2, sid2, format!("{}", i))
        }));
    }
    let mut all: Vec<String> = Vec::new();
    for h in handles {
        all.extend(h.join().expect("thread panicked"));
    }
    // events recorded during thread shutdown (all threads are joined: their destructors have run)
    if let Ok(v) = EXIT_EVENTS.lock() {
        all.extend(v.iter().cloned());
    }
    // order by global sequence number (3rd field)
    all.sort_by_key(|l| {
        l.split_ascii_whitespace().nth(2).and_then(|s| s.parse::<u64>().ok()).unwrap_or(0)
    });
    let out = std::io::stdout();
    let mut w = std::io::BufWriter::new(out.lock());
    use std::io::Write;
    for l in &all {
        writeln!(w, "{}", l).unwrap();
    }
    writeln!(w, "DONE {}", all.len()).unwrap();
    0
}
