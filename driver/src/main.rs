// fpdec-probe: the system-under-observation side of the runtime monitors.
//
// Reads one request per line, executes exactly ONE public fpdec operation for
// it (under catch_unwind), and writes one event line. The driver never
// interprets results - it only records them. All judging is done by the
// monitor (Python, /verif/vf).
//
// Usage:
//   probe                      requests on stdin, events on stdout
//   probe <reqfile> [outfile]  requests from file (needed under Miri)
//   probe --threads <specfile> C19 multi-thread workload (see threads.rs)
//   probe --sweep-f32 <lo> <hi> <nthreads>   exhaustive f32 -> Decimal monitor
//   probe --sweep-log10        exhaustive digit-count helpers monitor

#![allow(clippy::all)]

use std::cell::RefCell;
use std::io::{self, BufRead, BufWriter, Write};
use std::panic::{self, AssertUnwindSafe};
use std::str::FromStr;

use fpdec::{
    AsIntegerRatio, CheckedAdd, CheckedDiv, CheckedMul, CheckedRem,
    CheckedSub, Decimal, DivRounded, MulRounded, Quantize, Round,
    RoundingMode,
};
use fpdec_core::verif;

mod forms;
mod sweeps;
mod threads;

thread_local! {
    static LAST_PANIC: RefCell<String> = RefCell::new(String::new());
}

pub const MODES: [(&str, RoundingMode); 8] = [
    ("Round05Up", RoundingMode::Round05Up),
    ("RoundCeiling", RoundingMode::RoundCeiling),
    ("RoundDown", RoundingMode::RoundDown),
    ("RoundFloor", RoundingMode::RoundFloor),
    ("RoundHalfDown", RoundingMode::RoundHalfDown),
    ("RoundHalfEven", RoundingMode::RoundHalfEven),
    ("RoundHalfUp", RoundingMode::RoundHalfUp),
    ("RoundUp", RoundingMode::RoundUp),
];

pub fn mode_by_name(s: &str) -> Option<RoundingMode> {
    MODES.iter().find(|(n, _)| *n == s).map(|(_, m)| *m)
}

pub fn mode_name(m: RoundingMode) -> &'static str {
    MODES.iter().find(|(_, x)| *x == m).map(|(n, _)| *n).unwrap()
}

// ---------------------------------------------------------------------
// result encoding

pub fn dec(d: Decimal) -> String {
    format!("V {} {}", d.coefficient(), d.n_frac_digits())
}

pub fn opt(o: Option<Decimal>) -> String {
    match o {
        Some(d) => dec(d),
        None => "N".to_string(),
    }
}

pub fn hex(s: &str) -> String {
    let mut r = String::with_capacity(2 * s.len() + 1);
    r.push('S');
    for b in s.bytes() {
        r.push_str(&format!("{:02x}", b));
    }
    r
}

fn unhex(tok: &str) -> Result<String, String> {
    let t = tok.strip_prefix('S').ok_or("string operand must start with S")?;
    if t.len() % 2 != 0 {
        return Err("odd hex".into());
    }
    let mut bytes = Vec::with_capacity(t.len() / 2);
    for i in (0..t.len()).step_by(2) {
        bytes.push(
            u8::from_str_radix(&t[i..i + 2], 16).map_err(|e| e.to_string())?,
        );
    }
    String::from_utf8(bytes).map_err(|e| e.to_string())
}

pub fn pdec(tok: &str) -> Result<Decimal, String> {
    let t = tok.strip_prefix('D').ok_or("decimal operand must start with D")?;
    let (c, s) = t.split_once(':').ok_or("decimal operand needs coeff:scale")?;
    let c = i128::from_str(c).map_err(|e| e.to_string())?;
    let s = u8::from_str(s).map_err(|e| e.to_string())?;
    if s > 18 {
        return Err("scale > 18".into());
    }
    Ok(Decimal::new_raw(c, s))
}

fn pi128(tok: &str) -> Result<i128, String> {
    i128::from_str(tok).map_err(|e| e.to_string())
}

fn pn(tok: &str) -> Result<u8, String> {
    u8::from_str(tok).map_err(|e| e.to_string())
}

/// Splits an integer operand `<type>:<value>`.
pub fn split_int(tok: &str) -> Result<(&str, &str), String> {
    tok.split_once(':').ok_or_else(|| "int operand needs type:value".to_string())
}

fn is_dec(tok: &str) -> bool {
    tok.starts_with('D')
}

fn ordering(o: Option<std::cmp::Ordering>) -> &'static str {
    match o {
        None => "none",
        Some(std::cmp::Ordering::Less) => "-1",
        Some(std::cmp::Ordering::Equal) => "0",
        Some(std::cmp::Ordering::Greater) => "1",
    }
}

pub fn b(x: bool) -> char {
    if x {
        '1'
    } else {
        '0'
    }
}

// ---------------------------------------------------------------------
// formatting call sites: one format! per flag set x {width, precision} presence

macro_rules! fmt_flagset {
    ($d:expr, $w:expr, $p:expr, $plain:literal, $wl:literal, $pl:literal, $wpl:literal) => {
        match ($w, $p) {
            (None, None) => format!($plain, $d),
            (Some(w), None) => format!($wl, $d, w = w),
            (None, Some(p)) => format!($pl, $d, p = p),
            (Some(w), Some(p)) => format!($wpl, $d, w = w, p = p),
        }
    };
}

fn do_fmt(
    flags: &str,
    w: Option<usize>,
    p: Option<usize>,
    d: Decimal,
) -> Result<String, String> {
    Ok(match flags {
        "none" => fmt_flagset!(d, w, p, "{}", "{:w$}", "{:.p$}", "{:w$.p$}"),
        "left" => fmt_flagset!(d, w, p, "{:<}", "{:<w$}", "{:<.p$}", "{:<w$.p$}"),
        "center" => fmt_flagset!(d, w, p, "{:^}", "{:^w$}", "{:^.p$}", "{:^w$.p$}"),
        "right" => fmt_flagset!(d, w, p, "{:>}", "{:>w$}", "{:>.p$}", "{:>w$.p$}"),
        "zero" => fmt_flagset!(d, w, p, "{:0}", "{:0w$}", "{:0.p$}", "{:0w$.p$}"),
        "plus" => fmt_flagset!(d, w, p, "{:+}", "{:+w$}", "{:+.p$}", "{:+w$.p$}"),
        "pluszero" => fmt_flagset!(d, w, p, "{:+0}", "{:+0w$}", "{:+0.p$}", "{:+0w$.p$}"),
        "fill_left" => fmt_flagset!(d, w, p, "{:*<}", "{:*<w$}", "{:*<.p$}", "{:*<w$.p$}"),
        "fill_center" => fmt_flagset!(d, w, p, "{:*^}", "{:*^w$}", "{:*^.p$}", "{:*^w$.p$}"),
        "fill_right" => fmt_flagset!(d, w, p, "{:*>}", "{:*>w$}", "{:*>.p$}", "{:*>w$.p$}"),
        "alt" => fmt_flagset!(d, w, p, "{:#}", "{:#w$}", "{:#.p$}", "{:#w$.p$}"),
        "fill_utf8" => fmt_flagset!(d, w, p, "{:é>}", "{:é>w$}", "{:é>.p$}", "{:é>w$.p$}"),
        "plus_left" => fmt_flagset!(d, w, p, "{:<+}", "{:<+w$}", "{:<+.p$}", "{:<+w$.p$}"),
        "zero_left" => fmt_flagset!(d, w, p, "{:<0}", "{:<0w$}", "{:<0.p$}", "{:<0w$.p$}"),
        _ => return Err(format!("unknown flag set {}", flags)),
    })
}

// ---------------------------------------------------------------------
// integer conversions

macro_rules! toint_arm {
    ($t:ty, $d:expr) => {
        match <$t>::try_from($d) {
            Ok(v) => format!("I {}", v),
            Err(e) => format!("E {:?}", e),
        }
    };
}

fn do_toint(ty: &str, d: Decimal) -> Result<String, String> {
    Ok(match ty {
        "u8" => toint_arm!(u8, d),
        "i8" => toint_arm!(i8, d),
        "u16" => toint_arm!(u16, d),
        "i16" => toint_arm!(i16, d),
        "u32" => toint_arm!(u32, d),
        "i32" => toint_arm!(i32, d),
        "u64" => toint_arm!(u64, d),
        "i64" => toint_arm!(i64, d),
        "u128" => toint_arm!(u128, d),
        "i128" => toint_arm!(i128, d),
        _ => return Err("unknown int type".into()),
    })
}

macro_rules! fromint_arm {
    ($t:ty, $v:expr) => {
        dec(Decimal::from(
            <$t>::from_str($v).map_err(|e| e.to_string())?,
        ))
    };
}

fn do_fromint(tok: &str) -> Result<String, String> {
    let (ty, v) = split_int(tok)?;
    Ok(match ty {
        "u8" => fromint_arm!(u8, v),
        "i8" => fromint_arm!(i8, v),
        "u16" => fromint_arm!(u16, v),
        "i16" => fromint_arm!(i16, v),
        "u32" => fromint_arm!(u32, v),
        "i32" => fromint_arm!(i32, v),
        "u64" => fromint_arm!(u64, v),
        "i64" => fromint_arm!(i64, v),
        "i128" => fromint_arm!(i128, v),
        "u128" => {
            let u = u128::from_str(v).map_err(|e| e.to_string())?;
            match Decimal::try_from(u) {
                Ok(d) => dec(d),
                Err(e) => format!("E {:?}", e),
            }
        }
        _ => return Err("unknown int type".into()),
    })
}

fn hash_of<T: std::hash::Hash + ?Sized>(t: &T) -> u64 {
    use std::hash::Hasher;
    #[allow(deprecated)]
    let mut h = std::hash::SipHasher::new_with_keys(0x0123456789abcdef, 0xfedcba9876543210);
    t.hash(&mut h);
    h.finish()
}

/// A hasher that keeps the typed `write_*` calls apart (word-at-a-time hashers such as FxHash do): the digest
/// depends on the SEQUENCE of (method, value) calls, not only on the concatenated bytes.
struct CallSeqHasher {
    inner: std::hash::SipHasher,
}

impl CallSeqHasher {
    fn new() -> Self {
        #[allow(deprecated)]
        let inner = std::hash::SipHasher::new_with_keys(0x5eed, 0xca11);
        Self { inner }
    }
    fn tag(&mut self, t: u8, bytes: &[u8]) {
        use std::hash::Hasher;
        self.inner.write(&[t, bytes.len() as u8]);
        self.inner.write(bytes);
    }
}

impl std::hash::Hasher for CallSeqHasher {
    fn finish(&self) -> u64 {
        self.inner.finish()
    }
    fn write(&mut self, bytes: &[u8]) {
        self.tag(0, bytes);
    }
    fn write_u8(&mut self, i: u8) {
        self.tag(1, &i.to_le_bytes());
    }
    fn write_u16(&mut self, i: u16) {
        self.tag(2, &i.to_le_bytes());
    }
    fn write_u32(&mut self, i: u32) {
        self.tag(3, &i.to_le_bytes());
    }
    fn write_u64(&mut self, i: u64) {
        self.tag(4, &i.to_le_bytes());
    }
    fn write_u128(&mut self, i: u128) {
        self.tag(5, &i.to_le_bytes());
    }
    fn write_usize(&mut self, i: usize) {
        self.tag(6, &i.to_le_bytes());
    }
    fn write_i8(&mut self, i: i8) {
        self.tag(7, &i.to_le_bytes());
    }
    fn write_i16(&mut self, i: i16) {
        self.tag(8, &i.to_le_bytes());
    }
    fn write_i32(&mut self, i: i32) {
        self.tag(9, &i.to_le_bytes());
    }
    fn write_i64(&mut self, i: i64) {
        self.tag(10, &i.to_le_bytes());
    }
    fn write_i128(&mut self, i: i128) {
        self.tag(11, &i.to_le_bytes());
    }
    fn write_isize(&mut self, i: isize) {
        self.tag(12, &i.to_le_bytes());
    }
}

fn callseq_hash_of<T: std::hash::Hash>(t: &T) -> u64 {
    use std::hash::Hasher;
    let mut h = CallSeqHasher::new();
    t.hash(&mut h);
    h.finish()
}

/// Place the string into its own exact-size heap allocation, so that any
/// read beyond its end leaves the allocation (visible to ASan / Miri /
/// memcheck).
fn exact_box(s: &str) -> Box<str> {
    String::from(s).into_boxed_str()
}

// ---------------------------------------------------------------------
// the dispatcher: one request line -> one operation

fn execute(line: &str) -> Result<String, String> {
    let toks: Vec<&str> = line.split_ascii_whitespace().collect();
    if toks.is_empty() {
        return Err("empty request".into());
    }
    let op = toks[0];
    let arg = |i: usize| -> Result<&str, String> {
        toks.get(i).copied().ok_or_else(|| format!("missing argument {}", i))
    };
    Ok(match op {
        // ---- directives
        "mode" => {
            let m = mode_by_name(arg(1)?).ok_or("unknown mode")?;
            RoundingMode::set_default(m);
            "M".to_string()
        }
        "getmode" => format!("M {}", mode_name(RoundingMode::default())),
        "counts" => {
            let snap = verif::snapshot();
            let mut s = String::from("COUNTS");
            for (i, c) in snap.iter().enumerate() {
                if !verif::SITE_NAMES[i].is_empty() {
                    s.push_str(&format!(" {}={}", verif::SITE_NAMES[i], c));
                }
            }
            s
        }
        // ---- binary operations in all shapes and forms
        "add" | "sub" | "mul" | "div" | "rem" | "cadd" | "csub" | "cmul"
        | "cdiv" | "crem" | "divr" | "mulr" | "quant" | "cmpall" => {
            let form = arg(1)?;
            let l = arg(2)?;
            let r = arg(3)?;
            let n = match toks.get(4) {
                Some(t) => pn(t)?,
                None => 0,
            };
            forms::dispatch(op, form, l, r, n)?
        }
        // ---- rounding
        "round" => dec(pdec(arg(1)?)?.round(i8::from_str(arg(2)?).map_err(|e| e.to_string())?)),
        "cround" => opt(pdec(arg(1)?)?
            .checked_round(i8::from_str(arg(2)?).map_err(|e| e.to_string())?)),
        "krnd" => {
            let x = pi128(arg(1)?)?;
            let y = pi128(arg(2)?)?;
            let m = mode_by_name(arg(3)?).ok_or("unknown mode")?;
            format!("I {}", fpdec_core::i128_div_rounded(x, y, Some(m)))
        }
        "krnd_dflt" => {
            let x = pi128(arg(1)?)?;
            let y = pi128(arg(2)?)?;
            format!("I {}", fpdec_core::i128_div_rounded(x, y, None))
        }
        // ---- text -> Decimal
        "parse" => {
            let s = exact_box(&unhex(arg(1)?)?);
            match Decimal::from_str(&s) {
                Ok(d) => dec(d),
                Err(e) => format!("E {:?}", e),
            }
        }
        "tryfrom_str" => {
            let s = exact_box(&unhex(arg(1)?)?);
            match Decimal::try_from(&*s) {
                Ok(d) => dec(d),
                Err(e) => format!("E {:?}", e),
            }
        }
        "tryfrom_string" => {
            let mut s = unhex(arg(1)?)?;
            s.shrink_to_fit();
            match Decimal::try_from(s) {
                Ok(d) => dec(d),
                Err(e) => format!("E {:?}", e),
            }
        }
        "str2dec" => {
            let s = exact_box(&unhex(arg(1)?)?);
            match fpdec_core::str_to_dec(&s) {
                Ok((c, e)) => format!("R {} {}", c, e),
                Err(e) => format!("E {:?}", e),
            }
        }
        // ---- Decimal -> text
        "tostr" => hex(&pdec(arg(1)?)?.to_string()),
        "strfrom" => hex(&String::from(pdec(arg(1)?)?)),
        "debug" => hex(&format!("{:?}", pdec(arg(1)?)?)),
        "fmt" => {
            let flags = arg(1)?;
            let w = match arg(2)? {
                "-" => None,
                t => Some(usize::from_str(t).map_err(|e| e.to_string())?),
            };
            let p = match arg(3)? {
                "-" => None,
                t => Some(usize::from_str(t).map_err(|e| e.to_string())?),
            };
            hex(&do_fmt(flags, w, p, pdec(arg(4)?)?)?)
        }
        "debugf" => {
            // Debug with format flags (and inside containers, which forward the flags to the elements)
            let d = pdec(arg(2)?)?;
            let s = match arg(1)? {
                "p1" => format!("{:.1?}", d),
                "p0" => format!("{:.0?}", d),
                "p30" => format!("{:.30?}", d),
                "w20" => format!("{:20?}", d),
                "plus" => format!("{:+?}", d),
                "alt" => format!("{:#?}", d),
                "zw" => format!("{:012.3?}", d),
                "vec1" => format!("{:.1?}", vec![d]),
                "opt2" => format!("{:+.2?}", Some(d)),
                "tup" => format!("{:8.0?}", (d, 1_u8)),
                k => return Err(format!("unknown debugf kind {}", k)),
            };
            hex(&s)
        }
        "fmtpanic" => {
            // format into a sink that PANICS once `cap` bytes are exceeded; the panic is caught by run_line. A
            // perturbation: whatever the unwinding leaves behind must not leak into later calls
            use std::fmt::Write as _;
            struct Bomb {
                n: usize,
                cap: usize,
            }
            impl std::fmt::Write for Bomb {
                fn write_str(&mut self, s: &str) -> std::fmt::Result {
                    self.n += s.len();
                    if self.n > self.cap {
                        panic!("sink exploded");
                    }
                    Ok(())
                }
            }
            let cap = usize::from_str(arg(1)?).map_err(|e| e.to_string())?;
            let p = match arg(2)? {
                "-" => None,
                t => Some(usize::from_str(t).map_err(|e| e.to_string())?),
            };
            let d = pdec(arg(3)?)?;
            let mut sink = Bomb { n: 0, cap };
            let r = match p {
                None => write!(sink, "{}", d),
                Some(p) => write!(sink, "{:+.p$}", d, p = p),
            };
            format!("W {} {}", sink.n, if r.is_ok() { "ok" } else { "err" })
        }
        "setspin" => {
            // setspin <n>: n calls of set_default cycling through the seven non-default modes; after every 2^k-th
            // call (and the last few) default() must return the mode just set. Finds bookkeeping that wraps.
            let n = u64::from_str(arg(1)?).map_err(|e| e.to_string())?;
            let modes = [
                RoundingMode::Round05Up,
                RoundingMode::RoundCeiling,
                RoundingMode::RoundDown,
                RoundingMode::RoundFloor,
                RoundingMode::RoundHalfDown,
                RoundingMode::RoundHalfUp,
                RoundingMode::RoundUp,
            ];
            let before = RoundingMode::default();
            let mut bad = 0_u64;
            let mut first = 0_u64;
            for i in 0..n {
                let m = modes[(i % 7) as usize];
                RoundingMode::set_default(m);
                if (i & (i + 1)) == 0 || i + 8 > n || (i & 0xffff) == 0xffff {
                    let got = RoundingMode::default();
                    // one value per mode whose rounding differs from what RoundHalfEven would give
                    let (c, want) = match m {
                        RoundingMode::Round05Up => (5, 1),
                        RoundingMode::RoundCeiling => (25, 3),
                        RoundingMode::RoundDown => (26, 2),
                        RoundingMode::RoundFloor => (26, 2),
                        RoundingMode::RoundHalfDown => (35, 3),
                        RoundingMode::RoundHalfUp => (25, 3),
                        _ => (21, 3),
                    };
                    let r = Decimal::new_raw(c, 1).round(0);
                    if got != m || r.coefficient() != want {
                        if bad == 0 {
                            first = i + 1;
                        }
                        bad += 1;
                    }
                }
            }
            RoundingMode::set_default(before);
            format!("S {} {}", bad, first)
        }
        "fmtfail" => {
            // format into a sink that fails once `cap` bytes are exceeded (a fixed-capacity buffer): a perturbation -
            // whatever a failed write leaves behind must not leak into later calls
            use std::fmt::Write as _;
            struct Limited {
                buf: String,
                cap: usize,
            }
            impl std::fmt::Write for Limited {
                fn write_str(&mut self, s: &str) -> std::fmt::Result {
                    if self.buf.len() + s.len() > self.cap {
                        Err(std::fmt::Error)
                    } else {
                        self.buf.push_str(s);
                        Ok(())
                    }
                }
            }
            let cap = usize::from_str(arg(1)?).map_err(|e| e.to_string())?;
            let p = match arg(2)? {
                "-" => None,
                t => Some(usize::from_str(t).map_err(|e| e.to_string())?),
            };
            let d = pdec(arg(3)?)?;
            let mut sink = Limited { buf: String::new(), cap };
            let r = match p {
                None => write!(sink, "{}", d),
                Some(p) => write!(sink, "{:.p$}", d, p = p),
            };
            format!("W {} {}", hex(&sink.buf), if r.is_ok() { "ok" } else { "err" })
        }
        // ---- conversions
        "fromint" => do_fromint(arg(1)?)?,
        "toint" => do_toint(arg(1)?, pdec(arg(2)?)?)?,
        "tof64" => format!("U {}", f64::from(pdec(arg(1)?)?).to_bits()),
        "tof32" => format!("U {}", f32::from(pdec(arg(1)?)?).to_bits()),
        "fromf64" => {
            let bits = u64::from_str(arg(1)?).map_err(|e| e.to_string())?;
            match Decimal::try_from(f64::from_bits(bits)) {
                Ok(d) => dec(d),
                Err(e) => format!("E {:?}", e),
            }
        }
        "fromf32" => {
            let bits = u32::from_str(arg(1)?).map_err(|e| e.to_string())?;
            match Decimal::try_from(f32::from_bits(bits)) {
                Ok(d) => dec(d),
                Err(e) => format!("E {:?}", e),
            }
        }
        // ---- unary
        "neg" => dec(-pdec(arg(1)?)?),
        "negref" => dec(-&pdec(arg(1)?)?),
        "abs" => dec(pdec(arg(1)?)?.abs()),
        "floor" => dec(pdec(arg(1)?)?.floor()),
        "ceil" => dec(pdec(arg(1)?)?.ceil()),
        "trunc" => dec(pdec(arg(1)?)?.trunc()),
        "fract" => dec(pdec(arg(1)?)?.fract()),
        "magn" => format!("I {}", pdec(arg(1)?)?.magnitude()),
        "preds" => {
            let d = pdec(arg(1)?)?;
            format!(
                "B {}{}{}{}",
                b(d.eq_zero()),
                b(d.eq_one()),
                b(d.is_negative()),
                b(d.is_positive())
            )
        }
        "ratio" => {
            let d = pdec(arg(1)?)?;
            let (n, dn) = d.as_integer_ratio();
            format!("R {} {} {} {}", n, dn, d.numerator(), d.denominator())
        }
        "consts" => format!(
            "K {} {} {} {} {} {} {} {} {}",
            dec(Decimal::ZERO),
            dec(Decimal::ONE),
            dec(Decimal::NEG_ONE),
            dec(Decimal::TWO),
            dec(Decimal::TEN),
            dec(Decimal::MAX),
            dec(Decimal::MIN),
            dec(Decimal::DELTA),
            dec(Decimal::default())
        ),
        // ---- hashing
        "hash" => format!("U {}", hash_of(&pdec(arg(1)?)?)),
        "hashseq" => {
            // digest of the Decimal and of the given (numerator, denominator) pair under the call-sequence hasher
            let d = pdec(arg(1)?)?;
            let pair = (pi128(arg(2)?)?, pi128(arg(3)?)?);
            format!("U {} {}", callseq_hash_of(&d), callseq_hash_of(&pair))
        }
        "hashpair" => {
            format!("U {}", hash_of(&(pi128(arg(1)?)?, pi128(arg(2)?)?)))
        }
        "hashslice" => {
            // hashslice <n> D*n D*n : two Decimal sequences as composite keys (Vec, slice, array, tuple)
            let n = usize::from_str(arg(1)?).map_err(|e| e.to_string())?;
            if toks.len() != 2 + 2 * n || n == 0 {
                return Err("hashslice: wrong number of operands".to_string());
            }
            let mut v1 = Vec::new();
            let mut v2 = Vec::new();
            for i in 0..n {
                v1.push(pdec(&toks[2 + i])?);
                v2.push(pdec(&toks[2 + n + i])?);
            }
            let mut set = std::collections::HashSet::new();
            set.insert(v1.clone());
            let boxed1: Box<[Decimal]> = v1.clone().into_boxed_slice();
            let boxed2: Box<[Decimal]> = v2.clone().into_boxed_slice();
            let t1 = (v1[0], v1[n - 1], 7_u8);
            let t2 = (v2[0], v2[n - 1], 7_u8);
            format!(
                "U {} {} {} {} {} {} {}{}",
                hash_of(&v1),
                hash_of(&v2),
                hash_of(&boxed1[..]),
                hash_of(&boxed2[..]),
                hash_of(&t1),
                hash_of(&t2),
                b(v1 == v2),
                b(set.contains(&v2))
            )
        }
        "hashset" => {
            // hashset <n_insert> D... : insert the first n, then probe the rest
            let n_ins = usize::from_str(arg(1)?).map_err(|e| e.to_string())?;
            let mut set = std::collections::HashSet::new();
            let mut map = std::collections::HashMap::new();
            let mut bits = String::new();
            for (i, t) in toks[2..].iter().enumerate() {
                let d = pdec(t)?;
                if i < n_ins {
                    set.insert(d);
                    *map.entry(d).or_insert(0_u32) += 1;
                } else {
                    bits.push(b(set.contains(&d) && map.contains_key(&d)));
                }
            }
            format!("H {} {} {}", set.len(), map.len(), if bits.is_empty() { "-" } else { &bits })
        }
        // ---- order laws on live structures
        "sort" => {
            let mut v = Vec::new();
            for t in &toks[1..] {
                v.push(pdec(t)?);
            }
            v.sort();
            let mut s = String::from("L");
            for d in v {
                s.push_str(&format!(" {}:{}", d.coefficient(), d.n_frac_digits()));
            }
            s
        }
        "btree" => {
            let mut set = std::collections::BTreeSet::new();
            for t in &toks[1..] {
                set.insert(pdec(t)?);
            }
            let mut s = String::from("L");
            for d in set {
                s.push_str(&format!(" {}:{}", d.coefficient(), d.n_frac_digits()));
            }
            s
        }
        "clamp" => {
            // Ord::clamp is a provided method (it can be overridden); lo > hi must panic
            let x = pdec(arg(1)?)?;
            let lo = pdec(arg(2)?)?;
            let hi = pdec(arg(3)?)?;
            dec(x.clamp(lo, hi))
        }
        "minmax" => {
            let x = pdec(arg(1)?)?;
            let y = pdec(arg(2)?)?;
            format!(
                "X {} {} {} {}",
                dec(std::cmp::min(x, y)),
                dec(std::cmp::max(x, y)),
                ordering(Some(x.cmp(&y))),
                ordering(x.partial_cmp(&y))
            )
        }
        // ---- kernels (fpdec-core, doc-hidden but public)
        "k_i256" => {
            match fpdec_core::i256_div_mod_floor(
                pi128(arg(1)?)?,
                pi128(arg(2)?)?,
                pi128(arg(3)?)?,
            ) {
                Some((q, r)) => format!("Q {} {}", q, r),
                None => "N".to_string(),
            }
        }
        "k_shdm" => {
            match fpdec_core::i128_shifted_div_mod_floor(
                pi128(arg(1)?)?,
                pn(arg(2)?)?,
                pi128(arg(3)?)?,
            ) {
                Some((q, r)) => format!("Q {} {}", q, r),
                None => "N".to_string(),
            }
        }
        "k_mulr" => {
            let m = mode_by_name(arg(4)?).ok_or("unknown mode")?;
            match fpdec_core::i128_mul_div_ten_pow_rounded(
                pi128(arg(1)?)?,
                pi128(arg(2)?)?,
                pn(arg(3)?)?,
                Some(m),
            ) {
                Some(v) => format!("I {}", v),
                None => "N".to_string(),
            }
        }
        "k_shdr" => {
            let m = mode_by_name(arg(4)?).ok_or("unknown mode")?;
            match fpdec_core::i128_shifted_div_rounded(
                pi128(arg(1)?)?,
                pn(arg(2)?)?,
                pi128(arg(3)?)?,
                Some(m),
            ) {
                Some(v) => format!("I {}", v),
                None => "N".to_string(),
            }
        }
        "k_log10" => {
            let (ty, v) = split_int(arg(1)?)?;
            match ty {
                "u64" => format!("I {}", fpdec_core::u64(u64::from_str(v).map_err(|e| e.to_string())?)),
                "u128" => format!("I {}", fpdec_core::u128(u128::from_str(v).map_err(|e| e.to_string())?)),
                "u32" => format!("I {}", fpdec_core::u32(u32::from_str(v).map_err(|e| e.to_string())?)),
                _ => return Err("unknown type".into()),
            }
        }
        "k_mulpow" => {
            match fpdec_core::checked_mul_pow_ten(pi128(arg(1)?)?, pn(arg(2)?)?) {
                Some(v) => format!("I {}", v),
                None => "N".to_string(),
            }
        }
        _ => {
            #[cfg(feature = "full")]
            {
                if let Some(r) = full::execute_full(op, &toks)? {
                    return Ok(r);
                }
            }
            return Err(format!("unknown op {}", op));
        }
    })
}

#[cfg(feature = "full")]
mod full {
    use super::*;

    fn rk_roundtrip(d: Decimal) -> Result<Decimal, String> {
        use rkyv::Deserialize;
        let bytes = rkyv::to_bytes::<_, 256>(&d).map_err(|e| format!("{:?}", e))?;
        let archived = rkyv::check_archived_root::<Decimal>(&bytes[..])
            .map_err(|e| format!("{:?}", e))?;
        let r: Decimal = archived
            .deserialize(&mut rkyv::Infallible)
            .map_err(|e| format!("{:?}", e))?;
        Ok(r)
    }

    pub fn execute_full(op: &str, toks: &[&str]) -> Result<Option<String>, String> {
        let arg = |i: usize| -> Result<&str, String> {
            toks.get(i).copied().ok_or_else(|| format!("missing argument {}", i))
        };
        Ok(Some(match op {
            "serde" => {
                let d = pdec(arg(1)?)?;
                let js = serde_json::to_string(&d).map_err(|e| e.to_string())?;
                let back: Result<Decimal, _> = serde_json::from_str(&js);
                // the other ways a string reaches a Deserialize impl: an owned String (serde_json::Value), a
                // transient &str (from_reader has nothing to borrow from), and a string with escapes
                let text = js.trim_matches('"').to_string();
                let via_value: Result<Decimal, _> =
                    serde_json::from_value(serde_json::Value::String(text.clone()));
                let via_reader: Result<Decimal, _> = serde_json::from_reader(js.as_bytes());
                let escaped = format!("\"\\u00{:02x}{}\"", text.as_bytes()[0], &text[1..]);
                let via_escaped: Result<Decimal, _> = serde_json::from_str(&escaped);
                let same = |r: &Result<Decimal, serde_json::Error>| match (r, &back) {
                    (Ok(a), Ok(b)) => {
                        a.coefficient() == b.coefficient() && a.n_frac_digits() == b.n_frac_digits()
                    }
                    _ => false,
                };
                if !(same(&via_value) && same(&via_reader) && same(&via_escaped)) {
                    return Ok(Some(format!(
                        "{} X value={:?} reader={:?} escaped={:?}",
                        hex(&js),
                        via_value.map(|d| (d.coefficient(), d.n_frac_digits())).ok(),
                        via_reader.map(|d| (d.coefficient(), d.n_frac_digits())).ok(),
                        via_escaped.map(|d| (d.coefficient(), d.n_frac_digits())).ok()
                    )));
                }
                format!(
                    "{} {}",
                    hex(&js),
                    match back {
                        Ok(d) => dec(d),
                        Err(_) => "E de".to_string(),
                    }
                )
            }
            "serdefail" => {
                // serialise into a writer that fails after `cap` bytes: a perturbation (see fmtfail)
                struct FailWriter {
                    n: usize,
                    cap: usize,
                }
                impl std::io::Write for FailWriter {
                    fn write(&mut self, buf: &[u8]) -> std::io::Result<usize> {
                        if self.n + buf.len() > self.cap {
                            return Err(std::io::Error::new(std::io::ErrorKind::Other, "disk full"));
                        }
                        self.n += buf.len();
                        Ok(buf.len())
                    }
                    fn flush(&mut self) -> std::io::Result<()> {
                        Ok(())
                    }
                }
                let cap = usize::from_str(arg(1)?).map_err(|e| e.to_string())?;
                let d = pdec(arg(2)?)?;
                let mut w = FailWriter { n: 0, cap };
                let r = serde_json::to_writer(&mut w, &d);
                format!("W {} {}", w.n, if r.is_ok() { "ok" } else { "err" })
            }
            "serde_de" => {
                let s = unhex(arg(1)?)?;
                match serde_json::from_str::<Decimal>(&s) {
                    Ok(d) => dec(d),
                    Err(_) => "E de".to_string(),
                }
            }
            "rk_rt" => {
                let d = pdec(arg(1)?)?;
                let bytes = rkyv::to_bytes::<_, 256>(&d).map_err(|e| format!("{:?}", e))?;
                let archived = rkyv::check_archived_root::<Decimal>(&bytes[..])
                    .map_err(|e| format!("{:?}", e))?;
                let r = rk_roundtrip(d)?;
                format!(
                    "{} A {} {} {}",
                    dec(r),
                    { let a = *archived; a.coefficient() },
                    { let a = *archived; a.n_frac_digits() },
                    bytes.len()
                )
            }
            "rk_tuple" => {
                // the Decimals are archived back to back in an array: with
                // feature packed (size 17, alignment 1) the 2nd and 3rd
                // element sit at odd offsets
                use rkyv::Deserialize;
                let d = pdec(arg(1)?)?;
                let t = [d, -d, d];
                let bytes = rkyv::to_bytes::<_, 256>(&t).map_err(|e| format!("{:?}", e))?;
                let archived = rkyv::check_archived_root::<[Decimal; 3]>(&bytes[..])
                    .map_err(|e| format!("{:?}", e))?;
                let back: [Decimal; 3] = archived
                    .deserialize(&mut rkyv::Infallible)
                    .map_err(|e| format!("{:?}", e))?;
                let a1 = archived[1];
                let a2 = archived[2];
                format!(
                    "{} {} A {} {} {} {} T {}",
                    dec(back[1]),
                    dec(back[2]),
                    { a1.coefficient() },
                    { a1.n_frac_digits() },
                    { a2.coefficient() },
                    { a2.n_frac_digits() },
                    b(a2 == d && d == a2 && archived[0] == archived[2])
                )
            }
            "rk_cmp" => {
                let x = pdec(arg(1)?)?;
                let y = pdec(arg(2)?)?;
                let bx = rkyv::to_bytes::<_, 256>(&x).map_err(|e| format!("{:?}", e))?;
                let by = rkyv::to_bytes::<_, 256>(&y).map_err(|e| format!("{:?}", e))?;
                let ax = rkyv::check_archived_root::<Decimal>(&bx[..])
                    .map_err(|e| format!("{:?}", e))?;
                let ay = rkyv::check_archived_root::<Decimal>(&by[..])
                    .map_err(|e| format!("{:?}", e))?;
                // archived vs archived, archived vs Decimal, Decimal vs archived
                // ... and <= / >= (provided methods that an impl may override), min / max of two archived values
                let le_ge = format!(
                    "{}{}{}{}{}{}",
                    b(*ax <= *ay), b(*ax >= *ay), b(*ax <= y), b(*ax >= y), b(x <= *ay), b(x >= *ay)
                );
                let mn = std::cmp::min(ax, ay);
                let mx = std::cmp::max(ax, ay);
                let mm = format!(
                    "{}{}",
                    u8::from(mn.partial_cmp(ax) != Some(std::cmp::Ordering::Greater)
                        && mn.partial_cmp(ay) != Some(std::cmp::Ordering::Greater)),
                    u8::from(mx.partial_cmp(ax) != Some(std::cmp::Ordering::Less)
                        && mx.partial_cmp(ay) != Some(std::cmp::Ordering::Less))
                );
                format!(
                    "C aa={}{}{}{}:{}:{} ad={}{}{}{}:{} da={}{}{}{}:{} pr={}{}{}{} lg={} mm={}",
                    b(*ax == *ay), b(*ax != *ay), b(*ax < *ay), b(*ax > *ay),
                    ordering(ax.partial_cmp(ay)), ordering(Some(ax.cmp(ay))),
                    b(*ax == y), b(*ax != y), b(*ax < y), b(*ax > y),
                    ordering(ax.partial_cmp(&y)),
                    b(x == *ay), b(x != *ay), b(x < *ay), b(x > *ay),
                    ordering(x.partial_cmp(ay)),
                    b(ax.eq_zero()), b(ax.eq_one()), b(ax.is_negative()), b(ax.is_positive()),
                    le_ge, mm
                )
            }
            "rk_debug" => {
                let x = pdec(arg(1)?)?;
                let bx = rkyv::to_bytes::<_, 256>(&x).map_err(|e| format!("{:?}", e))?;
                let ax = rkyv::check_archived_root::<Decimal>(&bx[..])
                    .map_err(|e| format!("{:?}", e))?;
                hex(&format!("{:?}", ax))
            }
            "nt" => {
                use num_traits::{Num, One, Signed, Zero};
                let d = pdec(arg(1)?)?;
                let e = pdec(arg(2)?)?;
                format!(
                    "T {}{}{}{} {} {} {} {} {}",
                    b(Zero::is_zero(&d)),
                    b(One::is_one(&d)),
                    b(Signed::is_positive(&d)),
                    b(Signed::is_negative(&d)),
                    dec(Signed::abs(&d)),
                    dec(Signed::signum(&d)),
                    dec(<Decimal as Zero>::zero()),
                    dec(<Decimal as One>::one()),
                    {
                        let _ = <Decimal as Num>::from_str_radix("1", 10);
                        let _ = e;
                        // the provided methods too (they can be overridden): set_zero / set_one
                        let mut z = d;
                        Zero::set_zero(&mut z);
                        let mut o = d;
                        One::set_one(&mut o);
                        format!(
                            "{}{}",
                            b(z.coefficient() == 0 && z == Decimal::ZERO),
                            b(o == Decimal::ONE && o.coefficient() > 0)
                        )
                    }
                )
            }
            "nt_abssub" => {
                use num_traits::Signed;
                let d = pdec(arg(1)?)?;
                let e = pdec(arg(2)?)?;
                dec(Signed::abs_sub(&d, &e))
            }
            "nt_radix" => {
                use num_traits::Num;
                let radix = u32::from_str(arg(1)?).map_err(|e| e.to_string())?;
                let s = unhex(arg(2)?)?;
                match <Decimal as Num>::from_str_radix(&s, radix) {
                    Ok(d) => dec(d),
                    Err(e) => format!("E {:?}", e),
                }
            }
            _ => return Ok(None),
        }))
    }
}

/// Runs one request under catch_unwind and appends the hook trace.
pub fn run_line(line: &str) -> String {
    let _ = verif::take_op_trace();
    let res = panic::catch_unwind(AssertUnwindSafe(|| execute(line)));
    let (mask, mode) = verif::take_op_trace();
    let mut out = match res {
        Ok(Ok(s)) => s,
        Ok(Err(e)) => format!("BAD {}", e.replace('\n', " ")),
        Err(_) => {
            let msg = LAST_PANIC.with(|m| m.borrow().clone());
            format!("P {}", msg.replace('\n', " "))
        }
    };
    if mask != 0 || mode != 0xff {
        out.push_str(&format!(" ~{:x},{}", mask, mode));
    }
    out
}

fn install_panic_hook() {
    panic::set_hook(Box::new(|info| {
        let msg = if let Some(s) = info.payload().downcast_ref::<&str>() {
            (*s).to_string()
        } else if let Some(s) = info.payload().downcast_ref::<String>() {
            s.clone()
        } else {
            "<non-string panic>".to_string()
        };
        let loc = info
            .location()
            .map(|l| format!(" @{}:{}", l.file(), l.line()))
            .unwrap_or_default();
        LAST_PANIC.with(|m| *m.borrow_mut() = format!("{}{}", msg, loc));
    }));
}

fn main() {
    install_panic_hook();
    let args: Vec<String> = std::env::args().collect();
    if args.len() >= 2 && args[1] == "--threads" {
        std::process::exit(threads::run(&args[2..]));
    }
    if args.len() >= 5 && args[1] == "--cold" {
        // cold start: N threads are released together and run the same request list as their very first library
        // calls (lazily initialised shared state is built under contention); output: "#T <i>" + one line per request
        use std::sync::atomic::{AtomicUsize, Ordering};
        use std::sync::Arc;
        let n: usize = args[2].parse().expect("thread count");
        let text = std::fs::read_to_string(&args[3]).expect("cannot read request file");
        let lines: Arc<Vec<String>> = Arc::new(
            text.lines().map(|l| l.trim().to_string()).filter(|l| !l.is_empty() && !l.starts_with('#')).collect(),
        );
        let gate = Arc::new(AtomicUsize::new(0));
        let handles: Vec<_> = (0..n)
            .map(|_| {
                let lines = lines.clone();
                let gate = gate.clone();
                std::thread::spawn(move || {
                    gate.fetch_add(1, Ordering::SeqCst);
                    while gate.load(Ordering::SeqCst) < n {
                        std::hint::spin_loop();
                    }
                    lines.iter().map(|l| run_line(l)).collect::<Vec<String>>()
                })
            })
            .collect();
        let mut w = BufWriter::new(std::fs::File::create(&args[4]).expect("cannot create output file"));
        for (i, h) in handles.into_iter().enumerate() {
            writeln!(w, "#T {}", i).unwrap();
            match h.join() {
                Ok(v) => {
                    for l in v {
                        writeln!(w, "{}", l).unwrap();
                    }
                }
                Err(_) => writeln!(w, "#THREAD-DIED").unwrap(),
            }
        }
        w.flush().unwrap();
        return;
    }
    if args.len() >= 2 && args[1] == "--sweep-f32" {
        std::process::exit(sweeps::sweep_f32(&args[2..]));
    }
    if args.len() >= 2 && args[1] == "--sweep-tof" {
        std::process::exit(sweeps::sweep_tof(&args[2..]));
    }
    if args.len() >= 2 && args[1] == "--sweep-ratio" {
        std::process::exit(sweeps::sweep_ratio(&args[2..]));
    }
    if args.len() >= 2 && args[1] == "--sweep-f32-hard" {
        std::process::exit(sweeps::sweep_f32_hard(&args[2..]));
    }
    if args.len() >= 2 && args[1] == "--sweep-tof32-hard" {
        std::process::exit(sweeps::sweep_tof32_hard(&args[2..]));
    }
    if args.len() >= 2 && args[1] == "--sweep-tof32-small" {
        std::process::exit(sweeps::sweep_tof32_small(&args[2..]));
    }
    if args.len() >= 2 && args[1] == "--sweep-f64-grid" {
        std::process::exit(sweeps::sweep_f64_grid(&args[2..]));
    }
    if args.len() >= 2 && args[1] == "--sweep-log10" {
        std::process::exit(sweeps::sweep_log10());
    }
    let stdout = io::stdout();
    let reader: Box<dyn BufRead> = if args.len() >= 2 {
        Box::new(io::BufReader::new(
            std::fs::File::open(&args[1]).expect("cannot open request file"),
        ))
    } else {
        Box::new(io::BufReader::new(io::stdin()))
    };
    let mut writer: Box<dyn Write> = if args.len() >= 3 {
        Box::new(BufWriter::new(
            std::fs::File::create(&args[2]).expect("cannot create output file"),
        ))
    } else {
        Box::new(BufWriter::with_capacity(1 << 16, stdout.lock()))
    };
    for line in reader.lines() {
        let line = line.expect("read error");
        let line = line.trim();
        if line.is_empty() || line.starts_with('#') {
            continue;
        }
        let out = run_line(line);
        writeln!(writer, "{}", out).expect("write error");
    }
    writer.flush().expect("flush error");
}
