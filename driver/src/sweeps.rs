// In-process reference monitors for sub-domains that are enumerated
// completely (too many events for the line protocol).

use std::convert::TryFrom;

use crate::*;

/// Reference for f32 -> Decimal, exact u128 arithmetic, written from the
/// property statement (nearest 18-digit decimal, ties to even, trailing
/// zeros removed). Returns Ok((coeff, scale)) | Err(kind).
fn ref_f32(bits: u32) -> Result<(i128, u8), &'static str> {
    let sign: i128 = if bits >> 31 == 1 { -1 } else { 1 };
    let be = ((bits >> 23) & 0xff) as i32;
    let frac = (bits & 0x7fffff) as u128;
    if be == 0xff {
        return Err(if frac == 0 { "InfiniteValue" } else { "NotANumber" });
    }
    let (m, e) = if be == 0 { (frac, -149) } else { (frac | 0x800000, be - 150) };
    if m == 0 {
        return Ok((0, 0));
    }
    if e >= 0 {
        // integral: m * 2^e
        let nbits = 128 - m.leading_zeros() as i32 + e;
        if nbits > 127 {
            // |v| >= 2^127 (v == -2^127 is reported as overflow here; the
            // caller treats that single value as don't-care)
            return Err("InternalOverflow");
        }
        return Ok((sign * ((m << e) as i128), 0));
    }
    let k = (-e) as u32;
    // value = m / 2^k; coefficient at 18 digits = m * 10^18 / 2^k
    let num = m * 1_000_000_000_000_000_000_u128; // < 2^84
    let (mut q, rem_is_zero, cmp_half) = if k >= 128 {
        (0_u128, false, -1)
    } else {
        let q = num >> k;
        let rem = num & ((1_u128 << k) - 1);
        let half = 1_u128 << (k - 1);
        (q, rem == 0, if rem < half { -1 } else if rem == half { 0 } else { 1 })
    };
    if !rem_is_zero && (cmp_half > 0 || (cmp_half == 0 && q & 1 == 1)) {
        q += 1;
    }
    let mut scale = 18_u8;
    if q == 0 {
        return Ok((0, 0));
    }
    while scale > 0 && q % 10 == 0 {
        q /= 10;
        scale -= 1;
    }
    Ok((sign * q as i128, scale))
}

fn fmt_got(got: &Result<Decimal, fpdec::DecimalError>) -> String {
    match got {
        Ok(d) => format!("V {} {}", d.coefficient(), d.n_frac_digits()),
        Err(e) => format!("E {:?}", e),
    }
}

fn fmt_want(want: &Result<(i128, u8), &'static str>) -> String {
    match want {
        Ok((cf, s)) => format!("V {} {}", cf, s),
        Err(k) => format!("E {}", k),
    }
}

pub fn sweep_f32(args: &[String]) -> i32 {
    let lo: u64 = args[0].parse().expect("lo");
    let hi: u64 = args[1].parse().expect("hi");
    let nthreads: u64 = args[2].parse().expect("nthreads");
    let stride: u64 = args.get(3).map(|s| s.parse().expect("stride")).unwrap_or(0);
    let mut handles = Vec::new();
    let chunk = (hi - lo + nthreads - 1) / nthreads;
    for t in 0..nthreads {
        let a = lo + t * chunk;
        let b = std::cmp::min(hi, a + chunk);
        handles.push(std::thread::spawn(move || {
            // [checked, mismatches, ok_exact_int, ok_frac, zero, err_nan, err_inf, err_ovf, dontcare]
            let mut c = [0_u64; 9];
            let mut lines: Vec<String> = Vec::new();
            let mut bits = a;
            while bits < b {
                let f = f32::from_bits(bits as u32);
                let got = match std::panic::catch_unwind(|| Decimal::try_from(f)) {
                    Ok(g) => g,
                    Err(_) => {
                        // "no float input panics"
                        c[0] += 1;
                        c[1] += 1;
                        if lines.len() < 50 {
                            lines.push(format!("MISMATCH {} got P want -", bits));
                        }
                        bits += 1;
                        continue;
                    }
                };
                let want = ref_f32(bits as u32);
                c[0] += 1;
                let same = match (&got, &want) {
                    (Ok(d), Ok((cf, s))) => d.coefficient() == *cf && d.n_frac_digits() == *s,
                    (Err(e), Err(k)) => match e {
                        fpdec::DecimalError::NotANumber => *k == "NotANumber",
                        fpdec::DecimalError::InfiniteValue => *k == "InfiniteValue",
                        fpdec::DecimalError::InternalOverflow => *k == "InternalOverflow",
                        _ => false,
                    },
                    _ => false,
                };
                let dontcare = bits as u32 == 0xff00_0000; // -2^127
                if dontcare {
                    c[8] += 1;
                } else if !same {
                    c[1] += 1;
                    if lines.len() < 50 {
                        lines.push(format!("MISMATCH {} got {} want {}", bits, fmt_got(&got), fmt_want(&want)));
                    }
                } else {
                    match &want {
                        Ok((0, _)) => c[4] += 1,
                        Ok((_, 0)) => c[2] += 1,
                        Ok(_) => c[3] += 1,
                        Err("NotANumber") => c[5] += 1,
                        Err("InfiniteValue") => c[6] += 1,
                        Err(_) => c[7] += 1,
                    }
                }
                if stride != 0 && bits % stride == 0 {
                    lines.push(format!("SAMPLE {} {}", bits, fmt_got(&got)));
                }
                bits += 1;
            }
            (c, lines)
        }));
    }
    let mut tot = [0_u64; 9];
    for h in handles {
        let (c, lines) = h.join().expect("sweep thread panicked");
        for i in 0..9 {
            tot[i] += c[i];
        }
        for l in lines {
            println!("{}", l);
        }
    }
    println!(
        "DONE checked={} mismatches={} int={} frac={} zero={} nan={} inf={} ovf={} dontcare={}",
        tot[0], tot[1], tot[2], tot[3], tot[4], tot[5], tot[6], tot[7], tot[8]
    );
    0
}

pub fn sweep_log10() -> i32 {
    let mut checked = 0_u64;
    let mut mism = 0_u64;
    for v in 1..=u8::MAX {
        checked += 1;
        if fpdec_core::u8(v) != v.ilog10() {
            mism += 1;
            println!("MISMATCH u8 {}", v);
        }
    }
    for v in 1..=u16::MAX {
        checked += 1;
        if fpdec_core::u16(v) != v.ilog10() {
            mism += 1;
            println!("MISMATCH u16 {}", v);
        }
    }
    let mut v: u32 = 1;
    loop {
        checked += 1;
        if fpdec_core::u32(v) != v.ilog10() {
            mism += 1;
            if mism < 50 {
                println!("MISMATCH u32 {}", v);
            }
        }
        if v == u32::MAX {
            break;
        }
        v += 1;
    }
    // u64 / u128: every power-of-ten boundary +-2, plus an LCG sample
    let mut p: u128 = 1;
    for _ in 0..39 {
        for d in -2_i128..=2 {
            let x = p as i128 + d;
            if x >= 1 {
                let x = x as u128;
                checked += 1;
                if fpdec_core::u128(x) != x.ilog10() {
                    mism += 1;
                    println!("MISMATCH u128 {}", x);
                }
                if x <= u64::MAX as u128 {
                    checked += 1;
                    if fpdec_core::u64(x as u64) != (x as u64).ilog10() {
                        mism += 1;
                        println!("MISMATCH u64 {}", x);
                    }
                }
                // i128_magnitude
                if x <= i128::MAX as u128 {
                    checked += 1;
                    if fpdec_core::i128_magnitude(-(x as i128)) as u32 != x.ilog10() {
                        mism += 1;
                        println!("MISMATCH magn {}", x);
                    }
                }
            }
        }
        p = p.saturating_mul(10);
    }
    let mut s: u128 = 0x2545F4914F6CDD1D_u128 << 64 | 0x9E3779B97F4A7C15;
    for i in 0..10_000_000_u64 {
        s = s.wrapping_mul(0xda942042e4dd58b5_u128 << 64 | 0x1).wrapping_add(0x14057B7EF767814F);
        let x = (s >> (i % 127)) | 1;
        checked += 1;
        if fpdec_core::u128(x) != x.ilog10() {
            mism += 1;
            if mism < 50 {
                println!("MISMATCH u128 {}", x);
            }
        }
        let y = (x as u64) | 1;
        checked += 1;
        if fpdec_core::u64(y) != y.ilog10() {
            mism += 1;
            if mism < 50 {
                println!("MISMATCH u64 {}", y);
            }
        }
    }
    println!("DONE checked={} mismatches={}", checked, mism);
    0
}

// ---------------------------------------------------------------------
// Decimal -> f64 / f32 against std's correctly rounded decimal-string parser

fn dec_text(c: i128, s: u8) -> String {
    // built without fpdec's Display: sign, integer digits, point, fraction digits
    let neg = c < 0;
    let digits = c.unsigned_abs().to_string();
    let s = s as usize;
    let mut out = String::new();
    if neg {
        out.push('-');
    }
    if s == 0 {
        out.push_str(&digits);
    } else if digits.len() > s {
        out.push_str(&digits[..digits.len() - s]);
        out.push('.');
        out.push_str(&digits[digits.len() - s..]);
    } else {
        out.push_str("0.");
        for _ in 0..(s - digits.len()) {
            out.push('0');
        }
        out.push_str(&digits);
    }
    out
}

/// `--sweep-tof <n> <seed> <nthreads>`: n pseudo-random + structured Decimals per thread; f64::from(d) and
/// f32::from(d) must equal what std's (correctly rounded) parser makes of the decimal text.
pub fn sweep_tof(args: &[String]) -> i32 {
    let n: u64 = args[0].parse().expect("n");
    let seed: u64 = args[1].parse().expect("seed");
    let nthreads: u64 = args[2].parse().expect("nthreads");
    let mut handles = Vec::new();
    for t in 0..nthreads {
        handles.push(std::thread::spawn(move || {
            let mut s: u128 = ((seed as u128) << 64 | 0x9E3779B97F4A7C15) ^ ((t as u128 + 1) * 0xda942042e4dd58b5);
            let mut next = move || {
                s = s.wrapping_mul(0x2360ED051FC65DA44385DF649FCCF645).wrapping_add(0x14057B7EF767814F);
                s ^ (s >> 61)
            };
            let mut checked = 0_u64;
            let mut mism = 0_u64;
            let mut lines: Vec<String> = Vec::new();
            for i in 0..n {
                let r = next();
                let bits = 1 + (r >> 120) as u32 % 127;
                let mut c = (next() >> (128 - bits)) as i128;
                // structured coefficients every few cases: few significant bits, near powers of two
                match i % 5 {
                    1 => c = ((next() >> 75) as i128) << ((r >> 8) as u32 % 70),
                    2 => c = (1_i128 << ((r >> 8) as u32 % 126)) + ((r >> 20) as i128 % 5) - 2,
                    3 => {
                        // every guard / round / sticky pattern below a random 24- or 53-bit significand
                        let mant = if r & 2 == 0 { 24 } else { 53 };
                        let m = ((next() >> (128 - mant)) as i128) | (1_i128 << (mant - 1));
                        let extra = ((r >> 30) & 7) as i128;
                        let sh = (r >> 40) as u32 % (124 - mant as u32 - 3);
                        c = ((m << 3) | extra) << sh;
                        if sh > 0 && (r >> 50) & 1 == 1 {
                            c += 1; // sticky
                        }
                    }
                    _ => {}
                }
                if c > i128::MAX - 1 || c < -(i128::MAX - 1) {
                    c = i128::MAX;
                }
                if r & 1 == 1 {
                    c = -c;
                }
                let mut sc = ((r >> 3) % 19) as u8;
                if i % 5 == 3 {
                    // exact dyadic integers: scale 0, or written with trailing decimal zeros if that fits
                    let t = ((r >> 60) % 4) as u8;
                    sc = 0;
                    if let Some(cc) = c.checked_mul(10_i128.pow(t as u32)) {
                        if cc < i128::MAX && cc > -i128::MAX {
                            c = cc;
                            sc = t;
                        }
                    }
                }
                let d = Decimal::new_raw(c, sc);
                let txt = dec_text(c, sc);
                let want64: f64 = txt.parse().expect("std parse f64");
                let want32: f32 = txt.parse().expect("std parse f32");
                let got64 = f64::from(d);
                let got32 = f32::from(d);
                checked += 2;
                // zero: the property wants +0.0 for every zero (std gives -0.0 for "-0")
                let ok64 = if c == 0 { got64.to_bits() == 0 } else { got64.to_bits() == want64.to_bits() };
                let ok32 = if c == 0 { got32.to_bits() == 0 } else { got32.to_bits() == want32.to_bits() };
                if !ok64 {
                    mism += 1;
                    if lines.len() < 20 {
                        lines.push(format!("MISMATCH tof64 D{}:{} got {} want {}", c, sc, got64.to_bits(), want64.to_bits()));
                    }
                }
                if !ok32 {
                    mism += 1;
                    if lines.len() < 20 {
                        lines.push(format!("MISMATCH tof32 D{}:{} got {} want {}", c, sc, got32.to_bits(), want32.to_bits()));
                    }
                }
            }
            (checked, mism, lines)
        }));
    }
    let (mut checked, mut mism) = (0_u64, 0_u64);
    for h in handles {
        let (c, m, lines) = h.join().expect("sweep thread panicked");
        checked += c;
        mism += m;
        for l in lines {
            println!("{}", l);
        }
    }
    println!("DONE checked={} mismatches={}", checked, mism);
    0
}

// ---------------------------------------------------------------------
// f64 -> Decimal on a structured grid, exact u128 reference

fn ref_f64(bits: u64) -> Result<(i128, u8), &'static str> {
    let sign: i128 = if bits >> 63 == 1 { -1 } else { 1 };
    let be = ((bits >> 52) & 0x7ff) as i32;
    let frac = (bits & 0xfffffffffffff) as u128;
    if be == 0x7ff {
        return Err(if frac == 0 { "InfiniteValue" } else { "NotANumber" });
    }
    let (m, e) = if be == 0 { (frac, -1074) } else { (frac | 0x10000000000000, be - 1075) };
    if m == 0 {
        return Ok((0, 0));
    }
    if e >= 0 {
        let nbits = 128 - m.leading_zeros() as i32 + e;
        if nbits > 127 {
            return Err("InternalOverflow");
        }
        return Ok((sign * ((m << e) as i128), 0));
    }
    let k = (-e) as u32;
    // m * 10^18 < 2^53 * 2^60 = 2^113
    let num = m * 1_000_000_000_000_000_000_u128;
    let (mut q, rem_is_zero, cmp_half) = if k >= 128 {
        (0_u128, false, -1)
    } else {
        let q = num >> k;
        let rem = num & ((1_u128 << k) - 1);
        let half = 1_u128 << (k - 1);
        (q, rem == 0, if rem < half { -1 } else if rem == half { 0 } else { 1 })
    };
    if !rem_is_zero && (cmp_half > 0 || (cmp_half == 0 && q & 1 == 1)) {
        q += 1;
    }
    if q == 0 {
        return Ok((0, 0));
    }
    let mut scale = 18_u8;
    while scale > 0 && q % 10 == 0 {
        q /= 10;
        scale -= 1;
    }
    Ok((sign * q as i128, scale))
}

/// `--sweep-f64-grid <topbits> <nthreads>`: every f64 whose 52-bit fraction consists of `topbits` leading bits
/// (all patterns) followed by one of {000.., 000..1, 100.., 111..}, for every exponent and both signs.
pub fn sweep_f64_grid(args: &[String]) -> i32 {
    let topbits: u32 = args[0].parse().expect("topbits");
    let nthreads: u64 = args[1].parse().expect("nthreads");
    let mut handles = Vec::new();
    for t in 0..nthreads {
        handles.push(std::thread::spawn(move || {
            let mut checked = 0_u64;
            let mut mism = 0_u64;
            let mut lines: Vec<String> = Vec::new();
            let rest = 52 - topbits;
            let tails: [u64; 4] = [0, 1, 1 << (rest - 1), (1 << rest) - 1];
            let mut be = t;
            while be < 0x800 {
                for top in 0..(1_u64 << topbits) {
                    for tail in tails {
                        for sign in 0..2_u64 {
                            let bits = (sign << 63) | (be << 52) | (top << rest) | tail;
                            let f = f64::from_bits(bits);
                            checked += 1;
                            let got = match std::panic::catch_unwind(|| Decimal::try_from(f)) {
                                Ok(g) => g,
                                Err(_) => {
                                    mism += 1;
                                    if lines.len() < 20 {
                                        lines.push(format!("MISMATCH fromf64 {} got P", bits));
                                    }
                                    continue;
                                }
                            };
                            let want = ref_f64(bits);
                            let same = match (&got, &want) {
                                (Ok(d), Ok((cf, s))) => d.coefficient() == *cf && d.n_frac_digits() == *s,
                                (Err(e), Err(k)) => format!("{:?}", e) == *k,
                                _ => false,
                            };
                            // -2^127 is don't-care
                            if !same && bits != 0xC7E0_0000_0000_0000 {
                                mism += 1;
                                if lines.len() < 20 {
                                    lines.push(format!("MISMATCH fromf64 {} got {} want {}", bits, fmt_got(&got), fmt_want(&want)));
                                }
                            }
                        }
                    }
                }
                // short mantissas: random fractions with exactly L significant leading bits, L = 1..=52, i.e. the
                // dyadic rationals n / 2^k for every bit length of n
                let mut st: u64 = 0x9E3779B97F4A7C15 ^ (be.wrapping_mul(0xD1B54A32D192ED03));
                for l in 1..=52_u32 {
                    for _ in 0..24 {
                        st ^= st << 13;
                        st ^= st >> 7;
                        st ^= st << 17;
                        let fr = ((st >> (64 - l)) | 1) << (52 - l);
                        for sign in 0..2_u64 {
                            let bits = (sign << 63) | (be << 52) | (fr & 0xfffffffffffff);
                            let f = f64::from_bits(bits);
                            checked += 1;
                            let got = match std::panic::catch_unwind(|| Decimal::try_from(f)) {
                                Ok(g) => g,
                                Err(_) => {
                                    mism += 1;
                                    if lines.len() < 20 {
                                        lines.push(format!("MISMATCH fromf64 {} got P", bits));
                                    }
                                    continue;
                                }
                            };
                            let want = ref_f64(bits);
                            let same = match (&got, &want) {
                                (Ok(d), Ok((cf, s))) => d.coefficient() == *cf && d.n_frac_digits() == *s,
                                (Err(e), Err(k)) => format!("{:?}", e) == *k,
                                _ => false,
                            };
                            if !same && bits != 0xC7E0_0000_0000_0000 {
                                mism += 1;
                                if lines.len() < 20 {
                                    lines.push(format!("MISMATCH fromf64 {} got {} want {}", bits, fmt_got(&got), fmt_want(&want)));
                                }
                            }
                        }
                    }
                }
                be += nthreads;
            }
            (checked, mism, lines)
        }));
    }
    let (mut checked, mut mism) = (0_u64, 0_u64);
    for h in handles {
        let (c, m, lines) = h.join().expect("sweep thread panicked");
        checked += c;
        mism += m;
        for l in lines {
            println!("{}", l);
        }
    }
    println!("DONE checked={} mismatches={}", checked, mism);
    0
}

// ---------------------------------------------------------------------
// Decimal(c, n) -> f32 for ALL small coefficients, exact integer reference

/// Correctly rounded (ties to even) f32 bits of c / 10^n for 0 < c < 2^64, 0 <= n <= 18 (exact u128 arithmetic).
fn ref_tof32_small(c: u64, n: u32) -> u32 {
    let den = 10_u128.pow(n);
    // scale the numerator so that the quotient has at least 24 + 3 significant bits
    let cbits = 64 - c.leading_zeros();                 // 1..=64
    let dbits = 128 - den.leading_zeros();              // 1..=60
    // want (c << sh) / den >= 2^27  =>  cbits + sh - dbits >= 28
    let sh = (28 + dbits).saturating_sub(cbits);        // <= 87, c << sh < 2^(cbits+sh) <= 2^(28+dbits+..) < 2^128
    let num = (c as u128) << sh;
    let q = num / den;
    let r = num % den;
    let qbits = 128 - q.leading_zeros();                // >= 28
    let drop = qbits - 24;                              // bits below the 24-bit significand
    let mut m = (q >> drop) as u32;                     // 24 bits, top bit set
    let rest = q & ((1_u128 << drop) - 1);
    let half = 1_u128 << (drop - 1);
    let up = rest > half || (rest == half && (r != 0 || m & 1 == 1));
    // value = q * 2^-sh (approximately); exponent of m's top bit:
    let mut e = qbits as i32 - 1 - sh as i32;           // floor(log2(value))
    if up {
        m += 1;
        if m == 1 << 24 {
            m >>= 1;
            e += 1;
        }
    }
    (((e + 127) as u32) << 23) | (m & 0x7fffff)
}

/// `--sweep-tof32-small <lo> <hi> <nthreads>`: every coefficient in [lo, hi) at every scale 0..=18, both signs.
pub fn sweep_tof32_small(args: &[String]) -> i32 {
    let lo: u64 = args[0].parse().expect("lo");
    let hi: u64 = args[1].parse().expect("hi");
    let nthreads: u64 = args[2].parse().expect("nthreads");
    let chunk = (hi - lo + nthreads - 1) / nthreads;
    let mut handles = Vec::new();
    for t in 0..nthreads {
        let a = lo + t * chunk;
        let b = std::cmp::min(hi, a + chunk);
        handles.push(std::thread::spawn(move || {
            let mut checked = 0_u64;
            let mut mism = 0_u64;
            let mut lines: Vec<String> = Vec::new();
            let mut c = std::cmp::max(a, 1);
            while c < b {
                for n in 0..=18_u32 {
                    let want = ref_tof32_small(c, n);
                    let got = f32::from(Decimal::new_raw(c as i128, n as u8)).to_bits();
                    let gotn = f32::from(Decimal::new_raw(-(c as i128), n as u8)).to_bits();
                    checked += 2;
                    if got != want || gotn != (want | 0x8000_0000) {
                        mism += 1;
                        if lines.len() < 20 {
                            lines.push(format!("MISMATCH tof32 D{}:{} got {} / {} want {}", c, n, got, gotn, want));
                        }
                    }
                }
                c += 1;
            }
            (checked, mism, lines)
        }));
    }
    let (mut checked, mut mism) = (0_u64, 0_u64);
    for h in handles {
        let (c, m, lines) = h.join().expect("sweep thread panicked");
        checked += c;
        mism += m;
        for l in lines {
            println!("{}", l);
        }
    }
    println!("DONE checked={} mismatches={}", checked, mism);
    0
}

// ---------------------------------------------------------------------
// f32 hard cases: all (c, n) with c < 2^32 whose value c / 10^n lies extremely close to the midpoint of two
// adjacent f32 values (the inputs on which a conversion that rounds twice, e.g. via f64, goes wrong)

fn pow2_mod(e: u32, m: u128) -> u128 {
    // 2^e mod m, m < 2^60
    let mut r: u128 = 1 % m;
    for _ in 0..e {
        r = (r << 1) % m;
    }
    r
}

/// floor(frac(2^sh / ten) * 2^128) for sh >= 0; floor(2^(128+sh) / ten) for sh < 0 (then 2^sh / ten < 1).
fn beta_frac_fp(sh: i32, ten: u128) -> u128 {
    if sh >= 0 {
        let r0 = pow2_mod(sh as u32, ten); // < ten < 2^60
        let a = r0 << 64; // < 2^124
        let q1 = a / ten;
        let rem = a % ten;
        let q2 = (rem << 64) / ten;
        (q1 << 64) | (q2 & 0xffff_ffff_ffff_ffff)
    } else {
        // 2^(128 - k) / ten with k = -sh in 1..=9
        (1_u128 << (128 + sh) as u32) / ten
    }
}

/// `--sweep-tof32-hard <nthreads> <log2 of the closeness threshold, e.g. 26>`
pub fn sweep_tof32_hard(args: &[String]) -> i32 {
    let nthreads: usize = args[0].parse().expect("nthreads");
    let thr_bits: u32 = args.get(1).map(|s| s.parse().expect("bits")).unwrap_or(26);
    // tasks: (n, e) binades
    let mut tasks: Vec<(u32, i32)> = Vec::new();
    for n in 0..=18_u32 {
        for e in -64..32_i32 {
            tasks.push((n, e));
        }
    }
    let tasks = std::sync::Arc::new(tasks);
    let next = std::sync::Arc::new(std::sync::atomic::AtomicUsize::new(0));
    let mut handles = Vec::new();
    for _ in 0..nthreads {
        let tasks = tasks.clone();
        let next = next.clone();
        handles.push(std::thread::spawn(move || {
            let mut scanned = 0_u64;
            let mut cands = 0_u64;
            let mut checked = 0_u64;
            let mut mism = 0_u64;
            let mut lines: Vec<String> = Vec::new();
            loop {
                let i = next.fetch_add(1, std::sync::atomic::Ordering::Relaxed);
                if i >= tasks.len() {
                    break;
                }
                let (n, e) = tasks[i];
                let ten = 10_u128.pow(n);
                // c in [ceil(ten * 2^e), ceil(ten * 2^(e+1))) intersected with [1, 2^32)
                let lo = if e >= 0 {
                    ten.checked_shl(e as u32).unwrap_or(u128::MAX)
                } else {
                    let k = (-e) as u32;
                    (ten + (1_u128 << k) - 1) >> k
                };
                let hi = if e + 1 >= 0 {
                    ten.checked_shl((e + 1) as u32).unwrap_or(u128::MAX)
                } else {
                    let k = (-(e + 1)) as u32;
                    (ten + (1_u128 << k) - 1) >> k
                };
                let lo = std::cmp::max(lo, 1);
                let hi = std::cmp::min(hi, 1_u128 << 32);
                if lo >= hi {
                    continue;
                }
                let fp = beta_frac_fp(23 - e, ten);
                // scan with the top 64 bits of the fixed-point fraction (accumulated error < 2^-32, far below the
                // closeness threshold); candidates are then checked exactly
                let fp64 = (fp >> 64) as u64;
                let mut s = ((lo as u128).wrapping_mul(fp) >> 64) as u64;
                let mut c = lo as u64;
                let hi = hi as u64;
                let half64: u64 = 1 << 63;
                let thr64: u64 = 1 << (64 - thr_bits);
                let tie64: u64 = 1 << 30; // distance below 2^-34: treated as an exact tie
                while c < hi {
                    let d = if s >= half64 { s - half64 } else { half64 - s };
                    // exact ties are abundant (every odd multiple of half an ulp): check one in 61 of them; check
                    // EVERY near-but-not-exact midpoint
                    if d < thr64 && (d >= tie64 || c % 61 == 0) {
                        cands += 1;
                        for cc in [c.saturating_sub(1), c, c + 1] {
                            if cc == 0 || cc >= 1 << 32 {
                                continue;
                            }
                            let want = ref_tof32_small(cc, n);
                            let got = f32::from(Decimal::new_raw(cc as i128, n as u8)).to_bits();
                            let gotn = f32::from(Decimal::new_raw(-(cc as i128), n as u8)).to_bits();
                            checked += 2;
                            if got != want || gotn != (want | 0x8000_0000) {
                                mism += 1;
                                if lines.len() < 20 {
                                    lines.push(format!("MISMATCH tof32 D{}:{} got {} / {} want {}", cc, n, got, gotn, want));
                                }
                            }
                        }
                    }
                    s = s.wrapping_add(fp64);
                    c += 1;
                    scanned += 1;
                }
            }
            (scanned, cands, checked, mism, lines)
        }));
    }
    let (mut scanned, mut cands, mut checked, mut mism) = (0_u64, 0_u64, 0_u64, 0_u64);
    for h in handles {
        let (s, k, c, m, lines) = h.join().expect("sweep thread panicked");
        scanned += s;
        cands += k;
        checked += c;
        mism += m;
        for l in lines {
            println!("{}", l);
        }
    }
    println!("INFO scanned={} candidates={}", scanned, cands);
    println!("DONE checked={} mismatches={}", checked, mism);
    0
}

// ---------------------------------------------------------------------
// as_integer_ratio on many full-width coefficients against Euclid's gcd (long reduction chains are rare:
// P(chain > 100 passes) ~ 1e-7 per sample, so volume is what reaches them)

fn gcd_u128(mut a: u128, mut b: u128) -> u128 {
    while b != 0 {
        let t = a % b;
        a = b;
        b = t;
    }
    a
}

/// `--sweep-ratio <n per thread> <seed> <nthreads>`
pub fn sweep_ratio(args: &[String]) -> i32 {
    let n: u64 = args[0].parse().expect("n");
    let seed: u64 = args[1].parse().expect("seed");
    let nthreads: u64 = args[2].parse().expect("nthreads");
    let mut handles = Vec::new();
    for t in 0..nthreads {
        handles.push(std::thread::spawn(move || {
            let mut s: u128 = ((seed as u128) << 64 | 0x243F6A8885A308D3) ^ ((t as u128 + 1) * 0x9E3779B97F4A7C15F39CC0605CEDC835);
            let mut next = move || {
                s = s.wrapping_mul(0x2360ED051FC65DA44385DF649FCCF645).wrapping_add(0x14057B7EF767814F);
                s ^ (s >> 59)
            };
            let mut checked = 0_u64;
            let mut mism = 0_u64;
            let mut lines: Vec<String> = Vec::new();
            let mut max_passes_seen = 0_u32;
            for i in 0..n {
                let r = next();
                let mut c = (next() >> 1) as i128; // 127 bits
                match i % 4 {
                    1 => c |= 1 << 126,                                  // full width
                    2 => c = (c >> ((r >> 70) % 100)) | 1,               // any width, odd
                    3 => c = (c | (1 << 126)) / 5 * 5,                    // multiple of 5
                    _ => {}
                }
                if c == 0 {
                    c = 1;
                }
                if r & 1 == 1 {
                    c = -c;
                }
                let sc = match (r >> 8) % 6 {
                    0 => 18,
                    1 => 17,
                    2 => 1,
                    3 => 2,
                    _ => 1 + ((r >> 16) % 18) as u8,
                };
                let d = Decimal::new_raw(c, sc);
                let (num, den) = d.as_integer_ratio();
                let ten = 10_u128.pow(sc as u32);
                // gcd(|c|, 2^sc * 5^sc) from the 2-adic and 5-adic valuations of c (capped at sc)
                let mut g: u128 = 1 << std::cmp::min(c.unsigned_abs().trailing_zeros(), sc as u32);
                let mut t5 = c.unsigned_abs();
                let mut k5 = 0;
                while k5 < sc && t5 % 5 == 0 {
                    t5 /= 5;
                    k5 += 1;
                    g *= 5;
                }
                let want_n = c / g as i128;
                let want_d = (ten / g) as i128;
                checked += 1;
                // classification only: how long was the reduction chain (binary gcd passes)?
                if i % 256 == 0 {
                    let mut u = c.unsigned_abs();
                    u >>= u.trailing_zeros();
                    let mut v = 5_u128.pow(sc as u32);
                    let mut p = 0_u32;
                    while v != 0 {
                        p += 1;
                        v >>= v.trailing_zeros();
                        if u > v {
                            std::mem::swap(&mut u, &mut v);
                        }
                        v -= u;
                    }
                    if p > max_passes_seen {
                        max_passes_seen = p;
                    }
                }
                if num != want_n || den != want_d || d.numerator() != want_n || d.denominator() != want_d {
                    mism += 1;
                    if lines.len() < 20 {
                        lines.push(format!("MISMATCH ratio D{}:{} got {} {} want {} {}", c, sc, num, den, want_n, want_d));
                    }
                }
            }
            (checked, mism, lines, max_passes_seen)
        }));
    }
    let (mut checked, mut mism, mut maxp) = (0_u64, 0_u64, 0_u32);
    for h in handles {
        let (c, m, lines, p) = h.join().expect("sweep thread panicked");
        checked += c;
        mism += m;
        maxp = maxp.max(p);
        for l in lines {
            println!("{}", l);
        }
    }
    println!("INFO longest_reduction_chain_in_1_of_256_sample={}", maxp);
    println!("DONE checked={} mismatches={}", checked, mism);
    0
}

// ---------------------------------------------------------------------
// f32 -> Decimal hard cases: scan ALL f32 patterns for values whose 18-digit scaling lies extremely close to a
// rounding tie (no library call in the scan), check every candidate and its neighbours exactly

/// `--sweep-f32-hard <nthreads> <closeness bits>`
pub fn sweep_f32_hard(args: &[String]) -> i32 {
    let nthreads: u64 = args[0].parse().expect("nthreads");
    let bits_thr: u32 = args.get(1).map(|s| s.parse().expect("bits")).unwrap_or(20);
    let mut handles = Vec::new();
    let total: u64 = 1 << 31; // magnitudes; both signs are checked for each candidate
    let chunk = total / nthreads;
    for t in 0..nthreads {
        let a = t * chunk;
        let b = if t == nthreads - 1 { total } else { a + chunk };
        handles.push(std::thread::spawn(move || {
            let mut cands = 0_u64;
            let mut checked = 0_u64;
            let mut mism = 0_u64;
            let mut lines: Vec<String> = Vec::new();
            let mut bits = a;
            while bits < b {
                let be = ((bits >> 23) & 0xff) as i32;
                let frac = (bits & 0x7fffff) as u128;
                if be != 0 && be != 0xff {
                    let m = frac | 0x800000;
                    let e = be - 150;
                    if e < 0 {
                        let k = (-e) as u32;
                        if k < 128 {
                            let num = m * 1_000_000_000_000_000_000_u128;
                            let rem = num & ((1_u128 << k) - 1);
                            let half = 1_u128 << (k - 1);
                            let d = if rem >= half { rem - half } else { half - rem };
                            if k > bits_thr && d < (half >> bits_thr) {
                                cands += 1;
                                for bb in [bits.wrapping_sub(1), bits, bits + 1] {
                                    for sign in [0_u64, 1 << 31] {
                                        let pat = (bb | sign) as u32;
                                        let f = f32::from_bits(pat);
                                        if !f.is_finite() {
                                            continue;
                                        }
                                        let got = Decimal::try_from(f);
                                        let want = ref_f32(pat);
                                        checked += 1;
                                        let same = match (&got, &want) {
                                            (Ok(d), Ok((cf, s))) => d.coefficient() == *cf && d.n_frac_digits() == *s,
                                            (Err(e), Err(k)) => format!("{:?}", e) == *k,
                                            _ => false,
                                        };
                                        if !same {
                                            mism += 1;
                                            if lines.len() < 20 {
                                                lines.push(format!("MISMATCH fromf32 {} got {} want {}", pat, fmt_got(&got), fmt_want(&want)));
                                            }
                                        }
                                    }
                                }
                            }
                        }
                    }
                }
                bits += 1;
            }
            (cands, checked, mism, lines)
        }));
    }
    let (mut cands, mut checked, mut mism) = (0_u64, 0_u64, 0_u64);
    for h in handles {
        let (k, c, m, lines) = h.join().expect("sweep thread panicked");
        cands += k;
        checked += c;
        mism += m;
        for l in lines {
            println!("{}", l);
        }
    }
    println!("INFO scanned=2147483648 candidates={}", cands);
    println!("DONE checked={} mismatches={}", checked, mism);
    0
}
