// Every operand form of every binary operation, named explicitly.
//
// A request `<op> <form> <lhs> <rhs> [n]` selects exactly one trait impl:
//   op    add sub mul div rem | cadd csub cmul cdiv crem | divr mulr quant | cmpall
//   form  vv rv vr rr (by value / by reference per side), av ar (compound
//         assignment with rhs by value / by reference; Decimal lhs only),
//         or `*` = run every form that exists for this op and operand shape
//         and report all results (`form=result|form=result|...`).
//   lhs/rhs  D<coeff>:<scale> or <inttype>:<value>
// A request for an impl that does not exist is answered with BAD; an impl
// that is named here but missing in fpdec fails to compile.

use std::panic::{self, AssertUnwindSafe};
use std::str::FromStr;

use crate::*;

type Thunk<'a> = &'a dyn Fn() -> String;

fn guard(f: Thunk) -> String {
    match panic::catch_unwind(AssertUnwindSafe(f)) {
        Ok(s) => s,
        Err(_) => {
            let msg = LAST_PANIC.with(|m| m.borrow().clone());
            format!("P {}", msg.replace('\n', " ").replace('|', "/"))
        }
    }
}

fn run_forms(form: &str, table: &[(&str, Thunk)]) -> Result<String, String> {
    if form == "*" {
        let mut out = String::from("F ");
        for (i, (name, f)) in table.iter().enumerate() {
            if i > 0 {
                out.push('|');
            }
            out.push_str(name);
            out.push('=');
            out.push_str(&guard(*f));
        }
        Ok(out)
    } else {
        match table.iter().find(|(name, _)| *name == form) {
            Some((_, f)) => Ok(f()),
            None => Err(format!("no form {} for this op/shape", form)),
        }
    }
}

macro_rules! th {
    ($e:expr) => {
        &(|| $e) as Thunk
    };
}

// operator forms, Decimal result
macro_rules! op4 {
    ($x:ident, $y:ident, $op:tt) => {
        [
            ("vv", th!(dec($x $op $y))),
            ("rv", th!(dec(&$x $op $y))),
            ("vr", th!(dec($x $op &$y))),
            ("rr", th!(dec(&$x $op &$y))),
        ]
    };
}

macro_rules! op6 {
    ($x:ident, $y:ident, $op:tt, $opa:tt) => {
        [
            ("vv", th!(dec($x $op $y))),
            ("rv", th!(dec(&$x $op $y))),
            ("vr", th!(dec($x $op &$y))),
            ("rr", th!(dec(&$x $op &$y))),
            ("av", th!({
                let mut z = $x;
                z $opa $y;
                dec(z)
            })),
            ("ar", th!({
                let mut z = $x;
                z $opa &$y;
                dec(z)
            })),
        ]
    };
}

// checked trait methods (fully qualified: integer receivers have inherent
// methods of the same name)
macro_rules! tr4 {
    ($x:ident, $y:ident, $tr:ident, $m:ident) => {
        [
            ("vv", th!(opt($tr::$m($x, $y)))),
            ("rv", th!(opt($tr::$m(&$x, $y)))),
            ("vr", th!(opt($tr::$m($x, &$y)))),
            ("rr", th!(opt($tr::$m(&$x, &$y)))),
        ]
    };
}

macro_rules! rd4 {
    ($x:ident, $y:ident, $n:ident, $tr:ident, $m:ident) => {
        [
            ("vv", th!(dec($tr::$m($x, $y, $n)))),
            ("rv", th!(dec($tr::$m(&$x, $y, $n)))),
            ("vr", th!(dec($tr::$m($x, &$y, $n)))),
            ("rr", th!(dec($tr::$m(&$x, &$y, $n)))),
        ]
    };
}

macro_rules! qt4 {
    ($x:ident, $y:ident) => {
        [
            ("vv", th!(dec(Quantize::quantize($x, $y)))),
            ("rv", th!(dec(Quantize::quantize(&$x, $y)))),
            ("vr", th!(dec(Quantize::quantize($x, &$y)))),
            ("rr", th!(dec(Quantize::quantize(&$x, &$y)))),
        ]
    };
}

macro_rules! cmp1 {
    ($x:ident, $y:ident) => {
        [(
            "vv",
            th!(format!(
                "C {}{}{}{}{}{} {}",
                b($x == $y),
                b($x != $y),
                b($x < $y),
                b($x <= $y),
                b($x > $y),
                b($x >= $y),
                ordering($x.partial_cmp(&$y))
            )),
        )]
    };
}

fn ordering(o: Option<std::cmp::Ordering>) -> &'static str {
    match o {
        None => "none",
        Some(std::cmp::Ordering::Less) => "-1",
        Some(std::cmp::Ordering::Equal) => "0",
        Some(std::cmp::Ordering::Greater) => "1",
    }
}

fn dd(op: &str, form: &str, x: Decimal, y: Decimal, n: u8) -> Result<String, String> {
    let res = dd_forms(op, form, x, y, n)?;
    // identical operands: additionally the by-reference form with BOTH references to the SAME object (`&x op &x`),
    // reported as form `xx` - an aliasing short-cut must not change the result
    if form == "*" && x.coefficient() == y.coefficient() && x.n_frac_digits() == y.n_frac_digits() {
        let alias: Option<String> = match op {
            "add" => Some(guard(th!(dec(&x + &x)))),
            "sub" => Some(guard(th!(dec(&x - &x)))),
            "mul" => Some(guard(th!(dec(&x * &x)))),
            "div" => Some(guard(th!(dec(&x / &x)))),
            "rem" => Some(guard(th!(dec(&x % &x)))),
            "cadd" => Some(guard(th!(opt(CheckedAdd::checked_add(&x, &x))))),
            "csub" => Some(guard(th!(opt(CheckedSub::checked_sub(&x, &x))))),
            "cmul" => Some(guard(th!(opt(CheckedMul::checked_mul(&x, &x))))),
            "cdiv" => Some(guard(th!(opt(CheckedDiv::checked_div(&x, &x))))),
            "crem" => Some(guard(th!(opt(CheckedRem::checked_rem(&x, &x))))),
            "divr" => Some(guard(th!(dec(DivRounded::div_rounded(&x, &x, n))))),
            "mulr" => Some(guard(th!(dec(MulRounded::mul_rounded(&x, &x, n))))),
            "quant" => Some(guard(th!(dec(Quantize::quantize(&x, &x))))),
            _ => None,
        };
        if let Some(a) = alias {
            return Ok(format!("{}|xx={}", res, a));
        }
    }
    Ok(res)
}

fn dd_forms(op: &str, form: &str, x: Decimal, y: Decimal, n: u8) -> Result<String, String> {
    match op {
        "add" => run_forms(form, &op6!(x, y, +, +=)),
        "sub" => run_forms(form, &op6!(x, y, -, -=)),
        "mul" => run_forms(form, &op6!(x, y, *, *=)),
        "div" => run_forms(form, &op6!(x, y, /, /=)),
        "rem" => run_forms(form, &op6!(x, y, %, %=)),
        "cadd" => run_forms(form, &tr4!(x, y, CheckedAdd, checked_add)),
        "csub" => run_forms(form, &tr4!(x, y, CheckedSub, checked_sub)),
        "cmul" => run_forms(form, &tr4!(x, y, CheckedMul, checked_mul)),
        "cdiv" => run_forms(form, &tr4!(x, y, CheckedDiv, checked_div)),
        "crem" => run_forms(form, &tr4!(x, y, CheckedRem, checked_rem)),
        "divr" => run_forms(form, &rd4!(x, y, n, DivRounded, div_rounded)),
        "mulr" => run_forms(form, &rd4!(x, y, n, MulRounded, mul_rounded)),
        "quant" => run_forms(form, &qt4!(x, y)),
        "cmpall" => run_forms(form, &cmp1!(x, y)),
        _ => Err(format!("op {} not defined for Decimal/Decimal", op)),
    }
}

macro_rules! gen_int_shapes {
    ($di:ident, $id:ident, $ii:ident, $t:ty) => {
        fn $di(op: &str, form: &str, x: Decimal, y: $t, n: u8) -> Result<String, String> {
            match op {
                "add" => run_forms(form, &op6!(x, y, +, +=)),
                "sub" => run_forms(form, &op6!(x, y, -, -=)),
                "mul" => run_forms(form, &op6!(x, y, *, *=)),
                "div" => run_forms(form, &op6!(x, y, /, /=)),
                "rem" => run_forms(form, &op6!(x, y, %, %=)),
                "cadd" => run_forms(form, &tr4!(x, y, CheckedAdd, checked_add)),
                "csub" => run_forms(form, &tr4!(x, y, CheckedSub, checked_sub)),
                "cmul" => run_forms(form, &tr4!(x, y, CheckedMul, checked_mul)),
                "cdiv" => run_forms(form, &tr4!(x, y, CheckedDiv, checked_div)),
                "crem" => run_forms(form, &tr4!(x, y, CheckedRem, checked_rem)),
                "divr" => run_forms(form, &rd4!(x, y, n, DivRounded, div_rounded)),
                "quant" => run_forms(form, &qt4!(x, y)),
                "cmpall" => run_forms(form, &cmp1!(x, y)),
                _ => Err(format!("op {} not defined for Decimal/int", op)),
            }
        }

        fn $id(op: &str, form: &str, x: $t, y: Decimal, n: u8) -> Result<String, String> {
            match op {
                "add" => run_forms(form, &op4!(x, y, +)),
                "sub" => run_forms(form, &op4!(x, y, -)),
                "mul" => run_forms(form, &op4!(x, y, *)),
                "div" => run_forms(form, &op4!(x, y, /)),
                "rem" => run_forms(form, &op4!(x, y, %)),
                "cadd" => run_forms(form, &tr4!(x, y, CheckedAdd, checked_add)),
                "csub" => run_forms(form, &tr4!(x, y, CheckedSub, checked_sub)),
                "cmul" => run_forms(form, &tr4!(x, y, CheckedMul, checked_mul)),
                "cdiv" => run_forms(form, &tr4!(x, y, CheckedDiv, checked_div)),
                "crem" => run_forms(form, &tr4!(x, y, CheckedRem, checked_rem)),
                "divr" => run_forms(form, &rd4!(x, y, n, DivRounded, div_rounded)),
                "quant" => run_forms(form, &qt4!(x, y)),
                "cmpall" => run_forms(form, &cmp1!(x, y)),
                _ => Err(format!("op {} not defined for int/Decimal", op)),
            }
        }

        fn $ii(op: &str, form: &str, x: $t, y: $t, n: u8) -> Result<String, String> {
            match op {
                "divr" => run_forms(form, &rd4!(x, y, n, DivRounded, div_rounded)),
                "quant" => run_forms(form, &qt4!(x, y)),
                _ => Err(format!("op {} not defined for int/int", op)),
            }
        }
    };
}

gen_int_shapes!(di_u8, id_u8, ii_u8, u8);
gen_int_shapes!(di_i8, id_i8, ii_i8, i8);
gen_int_shapes!(di_u16, id_u16, ii_u16, u16);
gen_int_shapes!(di_i16, id_i16, ii_i16, i16);
gen_int_shapes!(di_u32, id_u32, ii_u32, u32);
gen_int_shapes!(di_i32, id_i32, ii_i32, i32);
gen_int_shapes!(di_u64, id_u64, ii_u64, u64);
gen_int_shapes!(di_i64, id_i64, ii_i64, i64);
gen_int_shapes!(di_i128, id_i128, ii_i128, i128);

fn pint<T: FromStr>(v: &str) -> Result<T, String>
where
    T::Err: std::fmt::Display,
{
    T::from_str(v).map_err(|e| e.to_string())
}

pub fn dispatch(op: &str, form: &str, l: &str, r: &str, n: u8) -> Result<String, String> {
    let ld = l.starts_with('D');
    let rd = r.starts_with('D');
    if ld && rd {
        return dd(op, form, pdec(l)?, pdec(r)?, n);
    }
    if ld {
        let x = pdec(l)?;
        let (ty, v) = split_int(r)?;
        return match ty {
            "u8" => di_u8(op, form, x, pint(v)?, n),
            "i8" => di_i8(op, form, x, pint(v)?, n),
            "u16" => di_u16(op, form, x, pint(v)?, n),
            "i16" => di_i16(op, form, x, pint(v)?, n),
            "u32" => di_u32(op, form, x, pint(v)?, n),
            "i32" => di_i32(op, form, x, pint(v)?, n),
            "u64" => di_u64(op, form, x, pint(v)?, n),
            "i64" => di_i64(op, form, x, pint(v)?, n),
            "i128" => di_i128(op, form, x, pint(v)?, n),
            _ => Err(format!("unknown int type {}", ty)),
        };
    }
    if rd {
        let y = pdec(r)?;
        let (ty, v) = split_int(l)?;
        return match ty {
            "u8" => id_u8(op, form, pint(v)?, y, n),
            "i8" => id_i8(op, form, pint(v)?, y, n),
            "u16" => id_u16(op, form, pint(v)?, y, n),
            "i16" => id_i16(op, form, pint(v)?, y, n),
            "u32" => id_u32(op, form, pint(v)?, y, n),
            "i32" => id_i32(op, form, pint(v)?, y, n),
            "u64" => id_u64(op, form, pint(v)?, y, n),
            "i64" => id_i64(op, form, pint(v)?, y, n),
            "i128" => id_i128(op, form, pint(v)?, y, n),
            _ => Err(format!("unknown int type {}", ty)),
        };
    }
    let (lt, lv) = split_int(l)?;
    let (rt, rv) = split_int(r)?;
    if lt != rt {
        return Err("int/int operands must have the same type".into());
    }
    match lt {
        "u8" => ii_u8(op, form, pint(lv)?, pint(rv)?, n),
        "i8" => ii_i8(op, form, pint(lv)?, pint(rv)?, n),
        "u16" => ii_u16(op, form, pint(lv)?, pint(rv)?, n),
        "i16" => ii_i16(op, form, pint(lv)?, pint(rv)?, n),
        "u32" => ii_u32(op, form, pint(lv)?, pint(rv)?, n),
        "i32" => ii_i32(op, form, pint(lv)?, pint(rv)?, n),
        "u64" => ii_u64(op, form, pint(lv)?, pint(rv)?, n),
        "i64" => ii_i64(op, form, pint(lv)?, pint(rv)?, n),
        "i128" => ii_i128(op, form, pint(lv)?, pint(rv)?, n),
        _ => Err(format!("unknown int type {}", lt)),
    }
}
