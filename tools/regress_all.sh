#!/bin/bash
# Re-introduce every repaired defect (one at a time, in a scratch copy) and run the checks that must report it.
cd "$(dirname "$(readlink -f "$0")")/.."
run() { echo "##### $1 -> ${@:2}"; LINES_MAX=3 COLS_MAX=220 tools/trymut_scratch.sh selftest/$1 "${@:2}"; }
run regress-D1-exact-negative-floor.diff C16 C02 C03 C04
run regress-D2-double-rounding.diff C04
run regress-D3-nfrac-guard.diff C04 C17
run regress-D4-round-tiny-and-wrap.diff C05 C20
run regress-D5-magnitude-zero.diff C15
run regress-D6-39-digit-wrap.diff C06
run regress-D7-exponent-sign-only.diff C06
run regress-D8a-zero-literals.diff C06
run regress-D8b-long-exponent.diff C06
run regress-D8c-leading-fraction-zeros.diff C06
run regress-D8d-zero-big-exponent.diff C06 C18
run regress-D9-unchecked-operators.diff C20 C01 C02
run regress-D10-round-quot-unchecked.diff C16 C03
run regress-D11-negate-min-divisor.diff C03 C04
run regress-D12-min-rem-minus-one.diff C10
run regress-D13-unaligned-checkbytes-ref.diff C08
run C06-oob-read-silent.diff C06
run C08-rkyv-packed-aligned-write.diff C08
run C19-static-mut-global-mode.diff C19
