#!/bin/bash
# Re-run the quick check of the property named in each seeded change's meta.json against that change, in scratch
# worktrees (never touches /repo). Prints one line per change; "MISSED" lines need attention (one is expected:
# C16-r5-T1m3, see DESIGN.md 6.8).
cd /verif
for d in seeded/*/; do
  id=$(basename $d); [ -f $d/patch.diff ] || continue
  pid=$(python3 -c "import json,sys; print(json.load(open('$d/meta.json'))['property'])")
  rc=$(LINES_MAX=1 tools/trymut_scratch.sh $d/patch.diff $pid 2>&1 | grep -o "rc=[0-9]*" | head -1)
  if [ "$rc" = "rc=1" ]; then echo "$id $pid DETECTED"; else echo "$id $pid MISSED ($rc)"; fi
done
echo ALLDONE
