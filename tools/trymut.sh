#!/bin/bash
# usage: trymut.sh <patch.diff> <ID> [<ID>...]   (applies to /repo, runs quick checks, undoes)
patch="$1"; shift
cd /repo || exit 3
if [ -n "$(git status --porcelain --untracked-files=no)" ]; then echo "/repo not clean"; exit 3; fi
git apply "$patch" || { echo "patch does not apply"; exit 3; }
trap 'git -C /repo checkout -- . ' EXIT
for id in "$@"; do
  out=$(cd /verif && timeout 1500 ./check "$id" ${TIER:+--tier $TIER} 2>&1); rc=$?
  echo "== $id rc=$rc"; echo "$out" | grep -E "VIOLATION|INCONCLUSIVE|violating event|HARNESS|KNOWN-FINDING|held on" | head -${LINES_MAX:-6}
done
