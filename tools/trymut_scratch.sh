#!/bin/bash
# usage: trymut_scratch.sh <patch.diff> <ID> [<ID>...]
# Runs the quick checks against a SCRATCH worktree of /repo with the patch applied (and a private copy of /verif),
# so that /repo itself is never touched. Everything is removed afterwards.
patch="$(readlink -f "$1")"; shift
S=$(mktemp -d /tmp/scr-XXXXXX)
trap 'git -C /repo worktree remove --force $S/repo >/dev/null 2>&1; rm -rf $S' EXIT
git -C /repo worktree add -q --detach $S/repo HEAD || exit 3
cp /repo/Cargo.lock $S/repo/ 2>/dev/null
git -C $S/repo apply "$patch" || { echo "patch does not apply"; exit 3; }
mkdir -p $S/verif
rsync -a --exclude .git --exclude .work --exclude replays --exclude evidence ${VERIF_SRC:-/verif}/ $S/verif/
[ -n "$VERIF_SRC" ] && rsync -a /verif/.build $S/verif/
mkdir -p $S/verif/replays $S/verif/evidence
sed -i "s#\"/repo#\"$S/repo#g" $S/verif/driver/Cargo.toml
rm -rf $S/verif/.build/bin $S/verif/.build/c18
for id in "$@"; do
  out=$(cd $S/verif && VERIF_REPO=$S/repo timeout 2400 ./check "$id" ${TIER:+--tier $TIER} 2>&1); rc=$?
  echo "== $id rc=$rc"; echo "$out" | grep -E "VIOLATION|INCONCLUSIVE|violating|HARNESS|KNOWN-FINDING|held on|report" | cut -c1-${COLS_MAX:-300} | head -${LINES_MAX:-6}
done
