/* LD_PRELOAD shim: logs the name of every environment variable a process asks for (getenv / secure_getenv) to the file
 * named by VERIF_GETENV_LOG, then forwards to the real function. Used by the environment-independence monitor: a
 * library whose behaviour is specified for all inputs must not consult the environment. */
#define _GNU_SOURCE
#include <dlfcn.h>
#include <fcntl.h>
#include <string.h>
#include <unistd.h>

static char *(*real_getenv)(const char *);
static char *(*real_secure_getenv)(const char *);
static int in_hook;

static void log_name(const char *name) {
    if (in_hook || !real_getenv) return;
    in_hook = 1;
    const char *path = real_getenv("VERIF_GETENV_LOG");
    if (path && name) {
        int fd = open(path, O_WRONLY | O_APPEND | O_CREAT, 0644);
        if (fd >= 0) {
            char buf[300];
            size_t n = strlen(name);
            if (n > 290) n = 290;
            memcpy(buf, name, n);
            buf[n] = '\n';
            (void)!write(fd, buf, n + 1);
            close(fd);
        }
    }
    in_hook = 0;
}

char *getenv(const char *name) {
    if (!real_getenv) real_getenv = dlsym(RTLD_NEXT, "getenv");
    log_name(name);
    return real_getenv ? real_getenv(name) : 0;
}

char *secure_getenv(const char *name) {
    if (!real_getenv) real_getenv = dlsym(RTLD_NEXT, "getenv");
    if (!real_secure_getenv) real_secure_getenv = dlsym(RTLD_NEXT, "secure_getenv");
    log_name(name);
    return real_secure_getenv ? real_secure_getenv(name) : 0;
}
