#!/bin/bash
# Coverage audit (development aid): which regions of /repo do the quick workloads execute?
# Uses the request files left in /verif/.work/<ID>/ by the last quick runs.
set -e
cd "$(dirname "$(readlink -f "$0")")/.."
BIN=$(rustc +nightly --print sysroot)/lib/rustlib/x86_64-unknown-linux-gnu/bin
(cd driver && LLVM_PROFILE_FILE=/verif/.work/cov-build-%p.profraw RUSTFLAGS="-Cinstrument-coverage" CARGO_NET_OFFLINE=true CARGO_TARGET_DIR=/verif/.build/cov cargo +nightly build --offline --features full 2>&1 | tail -1)
rm -rf .work/cov; mkdir -p .work/cov
for id in C01 C02 C03 C04 C05 C06 C07 C08 C09 C10 C11 C12 C13 C14 C15 C16 C17 C20; do
  for f in .work/$id/s*.req; do
    [ -f "$f" ] && LLVM_PROFILE_FILE=/verif/.work/cov/$id-%p.profraw .build/cov/debug/probe "$f" /dev/null 2>/dev/null || true
  done
done
LLVM_PROFILE_FILE=/verif/.work/cov/sweep-%p.profraw .build/cov/debug/probe --sweep-f32 1056964608 1057964608 4 >/dev/null
$BIN/llvm-profdata merge -sparse .work/cov/*.profraw -o .work/cov/all.profdata
$BIN/llvm-cov report -instr-profile=.work/cov/all.profdata .build/cov/debug/probe --sources /repo/src /repo/fpdec-core/src | cut -c1-130
echo "--- uncovered lines"
$BIN/llvm-cov show -instr-profile=.work/cov/all.profdata .build/cov/debug/probe --sources /repo/src /repo/fpdec-core/src --show-line-counts-or-regions 2>/dev/null | grep -E "^\s+[0-9]+\|\s+0\||^/repo" | grep -B1 -E "\|\s+0\|" | grep -v "^--" | cut -c1-150
