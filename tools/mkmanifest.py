#!/usr/bin/env python3
"""Regenerates /verif/MANIFEST.json from the property modules that exist."""
import importlib
import json
import os
import subprocess
import sys

ROOT = os.path.dirname(os.path.dirname(os.path.abspath(__file__)))
sys.path.insert(0, ROOT)

TECH = {
    "C06": "reference-model oracle over event log + ASan / Miri / valgrind memcheck on exact-size string allocations",
    "C08": "reference-model oracle over event log + live-structure monitors (sort, BTreeSet) + Miri/ASan on the rkyv+packed unsafe impl",
    "C13": "reference-model oracle over event log + exhaustive in-process f32 monitor",
    "C15": "reference-model oracle over event log + exhaustive in-process digit-count monitor",
    "C16": "reference-model oracle (divmod) over kernel event log with hook-counted branch coverage of the multi-word division",
    "C17": "consistency monitor over event groups (every impl named explicitly in the driver)",
    "C18": "monitor over generated programs: rustc + proc-macro outcome vs runtime parser outcome",
    "C19": "per-thread history checker over multi-threaded event logs (native stress, thread churn, thread-exit probes, fresh-process small-state workloads, Miri many-seeds, TSan, environment-independence monitor)",
    "C20": "differential monitor: same workload under N build profiles, logs compared line by line and against the oracles",
}
DEFAULT_TECH = "runtime monitoring: reference-model oracle (exact big-int arithmetic) over the driver's event log, dev + release builds"
COMMON_TECH = ("; common to all line-protocol checks: temporal-locality request sequences (state carried between calls), "
               "cold-start monitor (8 threads' first calls in a fresh process), environment-independence monitor "
               "(LD_PRELOAD getenv logger), hook-counted branch coverage")

NOTE = ("Trusted base: the Python oracles in vf/oracle.py and vf/props/*.py (self-checked on every run against libmpdec / "
        "CPython float division / the nearest-neighbour definition), the line-protocol driver /verif/driver (records, "
        "never interprets), rustc/cargo. Only executed inputs are decided: 'held' means held on the events listed in the "
        "evidence file, not proved.")


def main():
    props = {}
    for l in open(os.path.join(ROOT, "properties.jsonl")):
        p = json.loads(l)
        props[p["id"]] = p
    commits = subprocess.run(["git", "-C", "/repo", "log", "--format=%h %s"], stdout=subprocess.PIPE, text=True).stdout
    hook_commits = [l.split()[0] for l in commits.split("\n") if l[8:].startswith("verif-hooks")]
    checks = []
    na = []
    for pid in sorted(props):
        try:
            mod = importlib.import_module("vf.props." + pid.lower())
        except ImportError:
            na.append({"property_id": pid, "reason": "monitor not built yet (work in progress; the design in DESIGN.md covers it)"})
            continue
        text = getattr(mod, "LEVEL_TEXT", None) or (
            "Exploration by runtime monitoring: the real library (built from /repo's working tree, hooks on) executes "
            "constructed boundary families plus seeded random workloads; every event is judged by an exact reference "
            "model. " + mod.RULE)
        checks.append({
            "property_id": pid,
            "quick_cmd": "./check %s --tier quick" % pid,
            "thorough_cmd": "./check %s --tier thorough" % pid,
            "evidence_file": "/verif/evidence/%s.json" % pid,
            "replay_cmd_template": "./check replay {path}",
            "engine": "vf",
            "level_claimed": {"category": "exploration", "text": text, "design_ref": "DESIGN.md section 2, " + pid},
            "level_note": NOTE,
            "technique": TECH.get(pid, DEFAULT_TECH) + ("" if pid in ("C18", "C19") else COMMON_TECH),
        })
    man = {
        "version": 1,
        "setup_cmd": "./check setup",
        "hooks": {
            "guard": "feature:verif-hooks",
            "enable": "the driver crate /verif/driver depends on fpdec and fpdec-core (path /repo) with features=[\"verif-hooks\"]; fpdec/verif-hooks enables fpdec-core/verif-hooks",
            "baseline_off_cmd": "cd /repo && cargo test --workspace --no-fail-fast --offline",
            "source_commits": hook_commits,
            "add_only": True,
        },
        "engines": [{"name": "vf", "path": "/verif/vf", "serves_properties": [c["property_id"] for c in checks],
                     "kind_free_text": "Python monitor (generators, exact oracles, judge, evidence) + Rust line-protocol driver /verif/driver linked against /repo with feature verif-hooks"}],
        "checks": checks,
        "not_applicable": na,
        "notes": "Technique family: runtime monitoring and sanitizers. Exit codes: 0 held on everything observed, 1 violation (VIOLATION line + replay file), 3 inconclusive (never folded into 0 or 1). Known findings: /verif/known_findings.json. See DESIGN.md.",
    }
    with open(os.path.join(ROOT, "MANIFEST.json"), "w") as f:
        json.dump(man, f, indent=1)
        f.write("\n")
    print("checks:", len(checks), "not_applicable:", len(na))


main()
