"""Building the driver against /repo's current working tree."""

import fcntl
import os
import shutil
import subprocess
import time

ROOT = os.path.dirname(os.path.dirname(os.path.abspath(__file__)))
DRIVER = os.path.join(ROOT, "driver")
BUILD = os.path.join(ROOT, ".build")
WORK = os.path.join(ROOT, ".work")
BIN = os.path.join(BUILD, "bin")

PROFILE_DIR = {"dev": "debug"}
# The repository under observation. Always /repo for the registered checks; tools/trymut_scratch.sh runs a
# private copy of /verif against a scratch worktree and sets VERIF_REPO (its driver/Cargo.toml is rewritten too).
REPO = os.environ.get("VERIF_REPO", "/repo")


class BuildError(Exception):
    pass


def _env():
    env = dict(os.environ)
    env["CARGO_NET_OFFLINE"] = "true"
    env.pop("RUSTFLAGS", None)
    return env


def ensure_lock():
    """The driver's Cargo.lock starts from /repo's (pinned versions)."""
    lock = os.path.join(DRIVER, "Cargo.lock")
    if not os.path.exists(lock):
        shutil.copy(os.path.join(REPO, "Cargo.lock"), lock)


def getenv_shim():
    """Path of the LD_PRELOAD shim that logs getenv() names (tools/getenv_log.c), built on demand; None if no C
    compiler is available (the environment monitor is then skipped and says so)."""
    so = os.path.join(BUILD, "getenv_log.so")
    src = os.path.join(ROOT, "tools", "getenv_log.c")
    if os.path.exists(so) and os.path.getmtime(so) >= os.path.getmtime(src):
        return so
    os.makedirs(BUILD, exist_ok=True)
    tmp = so + ".%d.tmp" % os.getpid()
    for cc in ("cc", "gcc", "clang"):
        try:
            p = subprocess.run([cc, "-O1", "-shared", "-fPIC", "-o", tmp, src, "-ldl"], stdout=subprocess.PIPE,
                               stderr=subprocess.PIPE, timeout=120)
        except (OSError, subprocess.TimeoutExpired):
            continue
        if p.returncode == 0:
            os.replace(tmp, so)
            return so
    return None


def build(profile="dev", features=(), kind="main", quiet=True):
    """Build the probe; returns the path of a private copy of the binary.

    kind: main | asan | tsan  (separate target dirs; one sanitizer per build)
    """
    os.makedirs(BIN, exist_ok=True)
    os.makedirs(WORK, exist_ok=True)
    ensure_lock()
    feats = ",".join(sorted(features))
    name = "probe-%s-%s-%s" % (kind, profile, feats.replace(",", "+") or "base")
    dest = os.path.join(BIN, name)
    env = _env()
    cmd = ["cargo"]
    target_dir = os.path.join(BUILD, kind)
    triple = None
    if kind == "asan":
        cmd.append("+nightly")
        env["RUSTFLAGS"] = "-Zsanitizer=address -Cforce-frame-pointers=yes"
        triple = "x86_64-unknown-linux-gnu"
    elif kind == "tsan":
        cmd.append("+nightly")
        env["RUSTFLAGS"] = "-Zsanitizer=thread"
        triple = "x86_64-unknown-linux-gnu"
    cmd += ["build", "--offline", "--manifest-path", os.path.join(DRIVER, "Cargo.toml")]
    if profile == "release":
        cmd.append("--release")
    elif profile != "dev":
        cmd += ["--profile", profile]
    if feats:
        cmd += ["--features", feats]
    if triple:
        cmd += ["--target", triple]
    if kind == "tsan":
        cmd += ["-Zbuild-std"]
    env["CARGO_TARGET_DIR"] = target_dir
    # serialise our own copy step (cargo itself locks the target dir)
    os.makedirs(target_dir, exist_ok=True)
    with open(os.path.join(BUILD, ".lock-" + kind), "w") as lk:
        fcntl.flock(lk, fcntl.LOCK_EX)
        t0 = time.time()
        p = subprocess.run(cmd, env=env, cwd=DRIVER, stdout=subprocess.PIPE,
                           stderr=subprocess.STDOUT, text=True)
        if p.returncode != 0:
            raise BuildError("build failed (%s):\n%s" % (" ".join(cmd), p.stdout[-6000:]))
        pdir = PROFILE_DIR.get(profile, profile)
        out = os.path.join(target_dir, triple or "", pdir, "probe")
        tmp = dest + ".tmp%d" % os.getpid()
        shutil.copy2(out, tmp)
        os.replace(tmp, dest)
        if not quiet:
            print("built %s in %.1fs" % (name, time.time() - t0), flush=True)
    return dest


def miri_cmd(features=(), release=False):
    """Command prefix + env to run the probe under Miri."""
    ensure_lock()
    env = _env()
    env["CARGO_TARGET_DIR"] = os.path.join(BUILD, "miri")
    cmd = ["cargo", "+nightly", "miri", "run", "--offline", "--manifest-path",
           os.path.join(DRIVER, "Cargo.toml")]
    if release:
        cmd.append("--release")
    if features:
        cmd += ["--features", ",".join(sorted(features))]
    return cmd, env


def workdir(pid):
    """Private scratch directory of this check run (parallel runs of the same check must not share files)."""
    d = os.path.join(WORK, pid, "run-%d" % int(os.environ.get("VERIF_RUN_ID", os.getpid())))
    os.makedirs(d, exist_ok=True)
    return d


def cleanup_workdir(pid):
    if os.environ.get("VERIF_KEEP_WORK"):
        return
    d = os.path.join(WORK, pid, "run-%d" % int(os.environ.get("VERIF_RUN_ID", os.getpid())))
    shutil.rmtree(d, ignore_errors=True)
