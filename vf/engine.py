"""Generic runner for value properties: generate -> execute -> judge.

A property module provides

  ID, TITLE, RULE (how cases are generated / what is non-trivial)
  BUILDS            {'quick': [(profile, features), ...], 'thorough': [...]}
  REQUIRED_SITES    {site name: minimal hit count (quick)}  (may be empty)
  gen(rng, tier, shard, batch) -> list of request lines (incl. `mode X`)
  check(toks, resp, mode, build) -> (verdict, label, nontrivial, expected)
        verdict: 'ok' | 'dc' (don't care) | 'viol' | 'kf:<finding id>'

The engine shards over worker processes. Every worker writes its requests to
a file, runs each build's probe on it, and judges every event with the
property's oracle. Verdicts are three-valued: exit 0 (held on everything
observed), 1 (violation, replay file written), 3 (inconclusive).
"""

import hashlib
import json
import multiprocessing
import os
import random
import re
import subprocess
import sys
import time
import traceback

from . import build as B
from . import findings as F
from . import oracle as O

NCPU = min(16, os.cpu_count() or 4)
WATCHDOG_S = 600


class Resp:
    __slots__ = ("kind", "f", "raw", "mask", "mode")

    def __init__(self, line):
        self.mask = 0
        self.mode = 255
        i = line.rfind(" ~")
        if i >= 0:
            tr = line[i + 2:]
            line = line[:i]
            try:
                a, b = tr.split(",")
                self.mask = int(a, 16)
                self.mode = int(b)
            except ValueError:
                pass
        self.raw = line
        parts = line.split(" ")
        self.kind = parts[0]
        self.f = parts[1:]

    def dec(self):
        """(coeff, scale) of a `V c s` response."""
        return int(self.f[0]), int(self.f[1])


def pD(tok):
    c, s = tok[1:].split(":")
    return int(c), int(s)


def pI(tok):
    t, v = tok.split(":")
    return t, int(v)


def fD(c, s):
    return "D%d:%d" % (c, s)


def unhex(tok):
    return bytes.fromhex(tok[1:]).decode("utf-8")


def hexs(s):
    return "S" + s.encode("utf-8").hex()


def case_hash(s):
    return int.from_bytes(hashlib.blake2b(s.encode(), digest_size=8).digest(), "big")


def parse_counts(line):
    res = {}
    for kv in line.split(" ")[1:]:
        k, v = kv.split("=")
        res[k] = int(v)
    return res


class Stats:
    def __init__(self):
        self.evaluations = 0
        self.outcomes = {}
        self.labels = {}
        self.nontrivial = set()
        self.sites = {}
        self.violations = []
        self.kf = {}
        self.samples = []
        self.per_build = {}
        self.per_mode = {}
        self.errors = []
        self.batches = 0
        self.scale_pairs = set()
        self.int_types = set()
        self.forms = set()
        self.ops = set()
        self.env_names = set()

    def merge(self, o):
        self.env_names |= o.env_names
        self.scale_pairs |= o.scale_pairs
        self.int_types |= o.int_types
        self.forms |= o.forms
        self.ops |= o.ops
        self.evaluations += o.evaluations
        for d, od in ((self.outcomes, o.outcomes), (self.labels, o.labels), (self.sites, o.sites),
                      (self.per_build, o.per_build), (self.per_mode, o.per_mode)):
            for k, v in od.items():
                d[k] = d.get(k, 0) + v
        self.nontrivial |= o.nontrivial
        self.violations += o.violations
        for k, v in o.kf.items():
            e = self.kf.setdefault(k, {"count": 0, "example": v["example"]})
            e["count"] += v["count"]
        self.samples += o.samples
        self.errors += o.errors
        self.batches += o.batches


NT_CAP = 200000
_FORMS = {"vv", "rv", "vr", "rr", "av", "ar", "*"}
_INT_TYPES = set(O.INT_TYPES)


def run_probe(binary, reqfile, outfile, timeout=WATCHDOG_S, env=None):
    with open(reqfile, "rb") as fi, open(outfile, "wb") as fo:
        p = subprocess.run([binary], stdin=fi, stdout=fo, stderr=subprocess.PIPE,
                           timeout=timeout, env=env)
    return p


def judge_batch(prop, reqs, out_lines, build_name, st, max_viol=25):
    """Judge one (batch x build) event log."""
    mode = O.DEFAULT_MODE
    if len(out_lines) != len(reqs):
        st.errors.append("event log of build %s has %d lines for %d requests"
                         % (build_name, len(out_lines), len(reqs)))
        return
    for req, line in zip(reqs, out_lines):
        if req.startswith("mode "):
            mode = req[5:].strip()
            continue
        if req == "counts":
            for k, v in parse_counts(line).items():
                st.sites[k] = st.sites.get(k, 0) + v
            continue
        resp = Resp(line)
        toks = req.split(" ")
        if resp.kind == "BAD":
            st.errors.append("driver rejected request %r: %s" % (req, line))
            continue
        try:
            verdict, label, nontriv, expected = prop.check(toks, resp, mode, build_name)
        except Exception:
            st.errors.append("oracle exception on %r / %r: %s" % (req, line, traceback.format_exc()[-800:]))
            continue
        st.evaluations += 1
        # dimension coverage derived from the request itself
        st.ops.add(toks[0])
        sc = []
        for t in toks[1:5]:
            if t[:1] == "D" and ":" in t:
                sc.append(t[t.rfind(":") + 1:])
            elif t in _FORMS:
                st.forms.add(t)
            else:
                i = t.find(":")
                if i > 0 and t[:i] in _INT_TYPES:
                    st.int_types.add(t[:i])
                    sc.append("i")
        if len(sc) == 2:
            st.scale_pairs.add(sc[0] + "/" + sc[1])
        okind = resp.kind if len(resp.kind) <= 6 else resp.kind[0]
        st.outcomes[okind] = st.outcomes.get(okind, 0) + 1
        st.labels[label] = st.labels.get(label, 0) + 1
        st.per_build[build_name] = st.per_build.get(build_name, 0) + 1
        st.per_mode[mode] = st.per_mode.get(mode, 0) + 1
        if nontriv and len(st.nontrivial) < NT_CAP:
            st.nontrivial.add(case_hash(req))
        if verdict == "ok" or verdict == "dc":
            if verdict == "dc":
                st.labels["dontcare"] = st.labels.get("dontcare", 0) + 1
            if len(st.samples) < 3 and nontriv:
                st.samples.append({"mode": mode, "build": build_name, "request": req,
                                   "event": resp.raw, "expected": expected})
        elif verdict.startswith("kf:"):
            e = st.kf.setdefault(verdict[3:], {"count": 0, "example": {"request": req, "event": resp.raw,
                                                                          "expected": expected, "mode": mode}})
            e["count"] += 1
        else:
            if len(st.violations) < max_viol:
                st.violations.append({"mode": mode, "build": build_name, "request": req,
                                      "event": resp.raw, "expected": expected, "class": label})
            else:
                st.labels["more_violations"] = st.labels.get("more_violations", 0) + 1


LOCALITY_OPS = frozenset((
    "add sub mul div rem cadd csub cmul cdiv crem divr mulr quant cmpall minmax round cround tostr strfrom debug serde "
    "tof64 tof32 toint neg negref abs floor ceil trunc fract magn preds ratio hash fmt").split())
_DTOK = re.compile(r"^D(-?\d+):(\d+)$")


_ALIAS_OPS = {"tof64": "tof32", "tof32": "tof64", "fromf32": "fromf64", "round": "cround", "cround": "round",
              "add": "cadd", "cadd": "add", "sub": "csub", "csub": "sub", "mul": "cmul", "cmul": "mul",
              "div": "cdiv", "cdiv": "div", "rem": "crem", "crem": "rem", "tostr": "strfrom", "strfrom": "tostr"}
_FORM_FOR_CHECKED = {"av": "vv", "ar": "vr"}
_TOINT_TYPES = ("u8", "i8", "u16", "i16", "u32", "i32", "u64", "i64", "u128", "i128")
_M64 = (1 << 64) - 1


def _xor_mag(c, mask):
    a = (abs(c) ^ mask) & ((1 << 127) - 1)
    return a if c >= 0 else -a


def _relative(rng, toks, idx, known_ops=()):
    """One close relative of the request `toks` (list of tokens; idx = positions of the Decimal operands), or None."""
    M = O.M
    v = list(toks)
    k = rng.randrange(14)
    i = rng.choice(idx)
    m = _DTOK.match(toks[i])
    c, s = int(m.group(1)), int(m.group(2))
    c2, s2 = c, s
    if k == 0:
        s2 = s + rng.choice((1, -1))
    elif k == 1:
        c2 = c + rng.choice((1, -1, 3)) * (1 << rng.choice((64, 64, 32, 96)))
    elif k == 2:
        c2 = -c
    elif k == 3:
        c2, s2 = c * 10, s + 1
    elif k == 4:
        c2 = _xor_mag(c, 1 << rng.randrange(112, 127))          # a key that drops the high bits
    elif k == 5:
        c2 = _xor_mag(c, 1 << rng.randrange(0, 127))
    elif k == 6:
        c2 = c + rng.choice((1, -1))
    elif k == 7:
        # xor-fold twins: the same delta in both 64-bit limbs (tag hi ^ lo), or rotated by 32 (tag lo ^ rotl32(hi)),
        # or the limbs swapped
        d = rng.getrandbits(rng.choice((8, 31, 62)))
        kind = rng.randrange(3)
        if kind == 0:
            c2 = _xor_mag(c, (d << 64) | d)
        elif kind == 1:
            e = rng.getrandbits(62)
            r32 = ((e << 32) | (e >> 32)) & _M64
            c2 = _xor_mag(c, (e << 64) | r32)
        else:
            a = abs(c)
            a = ((a & _M64) << 64 | (a >> 64)) & ((1 << 127) - 1)
            c2 = a if c >= 0 else -a
    elif k == 8 and len(idx) >= 2:
        # coordinated change of two operands: the same delta in both (tag x ^ y), or with the halves swapped in the
        # second (tag rotl64(x) ^ y)
        i2 = rng.choice([t for t in idx if t != i])
        m2 = _DTOK.match(toks[i2])
        cb, sb = int(m2.group(1)), int(m2.group(2))
        d = rng.getrandbits(126)
        if rng.random() < 0.5:
            d2 = d
        else:
            d2 = ((d & _M64) << 64 | (d >> 64)) & ((1 << 127) - 1)
        c2 = _xor_mag(c, d)
        cb2 = _xor_mag(cb, d2)
        if abs(cb2) > M or (cb2 == 0 and cb != 0):
            return None
        v[i2] = "D%d:%d" % (cb2, sb)
    elif k == 9 and len(idx) >= 2:
        # scales packed into one key with a radix that is one too small: (18, q) and (0, q + 1) share the key
        i2 = rng.choice([t for t in idx if t != i])
        m2 = _DTOK.match(toks[i2])
        cb, sb = int(m2.group(1)), int(m2.group(2))
        if s == 18 and sb < 18:
            s2, sb2 = 0, sb + 1
        elif s == 0 and sb > 0:
            s2, sb2 = 18, sb - 1
        elif s >= 1 and sb <= 0:
            s2, sb2 = s - 1, 18
        else:
            s2, sb2 = (s + 1 if s < 18 else s), (sb - 1 if sb > 0 else sb)
        v[i2] = "D%d:%d" % (cb, sb2)
    elif k == 10:
        # the same operands through a sibling entry point (shared helpers, memo shared between types)
        op = toks[0]
        if op == "toint":
            v[1] = rng.choice([t for t in _TOINT_TYPES if t != toks[1]])
            return v
        if op in _ALIAS_OPS and _ALIAS_OPS[op] in known_ops:
            v[0] = _ALIAS_OPS[op]
            if v[0].startswith("c") and len(v) > 1 and v[1] in _FORM_FOR_CHECKED:
                v[1] = _FORM_FOR_CHECKED[v[1]]
            return v
        return None
    elif k == 11 and len(idx) >= 2:
        # both operands identical (the driver then also runs `&x op &x` with both references to one object)
        i2 = rng.choice([t for t in idx if t != i])
        v[i2] = toks[i]
        if len(v) > 1 and v[1] in _FORMS and ("*:" + toks[0]) in known_ops:
            v[1] = "*"                                            # only where the property itself uses the all-forms request
        return v
    else:
        return list(toks)                                        # plain repeat
    if not (0 <= s2 <= 18 and abs(c2) <= M):
        return None
    v[i] = "D%d:%d" % (c2, s2)
    return v


def add_locality(reqs, rng, p=0.03):
    """Temporal locality: now and then a request is followed by a close relative and then by itself again - a repeat; one
    Decimal operand with the scale changed by one, the coefficient shifted by a multiple of 2^32 / 2^64 / 2^96, a high or
    random bit flipped, +-1, negated, re-expressed with a trailing zero; xor-fold twins (the same delta in both 64-bit
    limbs, limbs swapped); a coordinated change of two operands; two scales changed together the way a mixed-radix key
    with a radix one too small confuses them; the same operands through a sibling entry point (checked_*, the other
    float / integer type, String::from); the same request under another thread rounding mode - in the patterns A B A,
    A B C D A, A B A B A A. Every line is still judged on its own by the exact oracle; the point is the *sequence*: a
    memo, cache or lazily initialised table keyed on part of the operands (and any other state carried from one call
    to the next) returns a relative's answer for the original."""
    out = []
    cur = O.DEFAULT_MODE
    known_ops = set(r.split(" ", 1)[0] for r in reqs)          # sibling entry points only if the property uses them
    known_ops |= set("*:" + r.split(" ", 1)[0] for r in reqs if r.split(" ")[1:2] == ["*"])
    for r in reqs:
        out.append(r)
        if r.startswith("mode "):
            cur = r[5:].strip()
            continue
        if rng.random() >= p:
            continue
        toks = r.split(" ")
        if toks[0] in ("fromf64", "fromf32") and len(toks) == 2:
            # float requests carry a bit pattern: neighbours, a flipped bit, and the same raw bits as the other type
            b = int(toks[1])
            width = 64 if toks[0] == "fromf64" else 32
            k = rng.randrange(4)
            if k == 0 and b < (1 << 32) and ("fromf32" if width == 64 else "fromf64") in known_ops:
                rel = "%s %d" % ("fromf32" if width == 64 else "fromf64", b)
            elif k == 1:
                rel = "%s %d" % (toks[0], b ^ (1 << rng.randrange(0, width)))
            elif k == 2:
                rel = "%s %d" % (toks[0], (b + rng.choice((1, -1))) % (1 << width))
            else:
                rel = r
            out += [rel, r] if rng.random() < 0.6 else [rel, r, rel, r, r]
            continue
        if toks[0] not in LOCALITY_OPS:
            continue
        if rng.random() < 0.1:
            # the same request again under another thread rounding mode, and once more under the original one
            other = rng.choice([m for m in O.MODES if m != cur])
            out += ["mode " + other, r, "mode " + cur, r]
            continue
        idx = [i for i, t in enumerate(toks) if _DTOK.match(t)]
        if not idx:
            continue
        v = _relative(rng, toks, idx, known_ops)
        if v is None:
            continue
        rel = " ".join(v)
        z = rng.random()
        if z < 0.6:
            out += [rel, r]                                       # A B A
        elif z < 0.8:
            out += [rel, r, rel, r, r]                            # A B A B A A
        else:
            chain = [rel]                                         # A B C D A
            for _ in range(rng.randrange(2, 4)):
                w = _relative(rng, v, [i for i, t in enumerate(v) if _DTOK.match(t)], known_ops)
                if w is not None:
                    v = w
                    chain.append(" ".join(v))
            out += chain + [r]
    return out


ENV_ALLOW = re.compile(r"^(RUST_|RUSTC_|CARGO_|MALLOC_|GLIBC_|LD_|LC_|LANG|LANGUAGE|TZ$|TMPDIR$|HOME$|PATH$|VERIF_|ASAN_|TSAN_|"
                       r"MSAN_|LSAN_|UBSAN_|MIRI)")
ENV_VALUES = ("1", "0", "true", "strict", "RoundUp", "RoundHalfUp", "roundup", "ROUND_UP", "up", "Up", "HalfUp",
              "half-up", "half_up", "RoundDown", "RoundFloor", "RoundCeiling", "Round05Up", "RoundHalfDown", "floor",
              "ceiling", "down", "2", "7")


def env_monitor(prop, reqs, bins, wdir, shard, st):
    """Environment-independence monitor: one probe run under an LD_PRELOAD shim that logs every getenv() name. Names
    outside the runtime's own (RUST_*, glibc, sanitizers) are recorded, and the batch is re-run and re-judged with each of
    them set to a range of plausible values: the properties are stated for all inputs, not for all environments."""
    so = B.getenv_shim()
    if so is None:
        st.env_names.add("<monitor skipped: no C compiler>")
        return
    bname, binary = bins[0]
    reqfile = os.path.join(wdir, "env%d.req" % shard)
    small = [r for r in reqs if len(r) < 4000][:3000]
    with open(reqfile, "w") as f:
        f.write("\n".join(small) + "\n")
    logf = os.path.join(wdir, "env%d.log" % shard)
    if os.path.exists(logf):
        os.remove(logf)
    env = dict(os.environ)
    env["LD_PRELOAD"] = so
    env["VERIF_GETENV_LOG"] = logf
    outfile = os.path.join(wdir, "env%d.out" % shard)
    try:
        p = run_probe(binary, reqfile, outfile, env=env)
    except subprocess.TimeoutExpired:
        st.errors.append("watchdog: environment monitor run timed out")
        return
    if p.returncode != 0:
        st.errors.append("environment monitor run exited with %d" % p.returncode)
        return
    names = set()
    if os.path.exists(logf):
        names = set(l.strip() for l in open(logf) if l.strip())
    st.env_names.add("<scan done>")
    for n in sorted(names):
        st.env_names.add(n)
    for n in sorted(x for x in names if not ENV_ALLOW.match(x)):
        for val in ENV_VALUES:
            e2 = dict(os.environ)
            e2[n] = val
            try:
                p = run_probe(binary, reqfile, outfile, env=e2)
            except subprocess.TimeoutExpired:
                st.errors.append("watchdog: environment monitor rerun timed out")
                continue
            if p.returncode != 0:
                st.errors.append("environment monitor rerun exited with %d" % p.returncode)
                continue
            out_lines = open(outfile).read().split("\n")
            if out_lines and out_lines[-1] == "":
                out_lines.pop()
            judge_batch(prop, small, out_lines, "%s:env %s=%s" % (bname, n, val), st)


COLD_THREADS = 8


def cold_start(prop, reqs, rng, bins, wdir, shard, st):
    """Cold-start monitor: a fresh process in which COLD_THREADS threads, released together by a spin gate, execute the
    same short request list as their very first library calls; every thread's every answer is judged by the property's
    exact oracle. This is where lazily initialised process-wide state (tables, once-flags) is built under contention."""
    pool = [r for r in reqs if not r.startswith(("mode ", "getmode", "counts"))]
    if not pool:
        return
    for _round in range(2):
        sample = [rng.choice(pool) for _ in range(12)]
        reqfile = os.path.join(wdir, "cold%d.req" % shard)
        with open(reqfile, "w") as f:
            f.write("\n".join(sample) + "\n")
        for bname, binary in bins:
            outfile = os.path.join(wdir, "cold%d.%s.out" % (shard, bname))
            try:
                p = subprocess.run([binary, "--cold", str(COLD_THREADS), reqfile, outfile], stdout=subprocess.PIPE,
                                   stderr=subprocess.PIPE, timeout=120)
            except subprocess.TimeoutExpired:
                st.errors.append("watchdog: cold-start probe %s timed out" % bname)
                continue
            if p.returncode != 0:
                st.errors.append("cold-start probe %s exited with %d: %s" % (bname, p.returncode, p.stderr[-300:].decode("utf-8", "replace")))
                continue
            threads = []
            for line in open(outfile).read().split("\n"):
                if line.startswith("#T "):
                    threads.append([])
                elif line == "#THREAD-DIED":
                    st.errors.append("cold-start probe %s: a thread died" % bname)
                elif line and threads:
                    threads[-1].append(line)
            for lines in threads:
                if len(lines) == len(sample):
                    judge_batch(prop, sample, lines, bname + ":cold", st)


def _worker(args):
    modname, tier, seed, shard, nshards, bins, deadline, max_batches = args
    import importlib
    prop = importlib.import_module(modname)
    st = Stats()
    wdir = B.workdir(prop.ID)
    batch = 0
    try:
        while True:
            rng = random.Random((seed * 1000003 + shard) * 1009 + batch)
            reqs = prop.gen(rng, tier, shard, batch)
            if not reqs:
                break
            reqs = list(reqs)
            if getattr(prop, "MODE_INDEPENDENT", False):
                # the result must not depend on the thread's rounding mode: run one half of the batch under
                # RoundHalfEven and the other half under another mode (rotating over shards and batches)
                other = O.MODES[(shard + batch * 3) % 8]
                if other == O.DEFAULT_MODE:
                    other = "RoundUp"
                h = len(reqs) // 2
                if (shard + batch) % 2:
                    reqs = ["mode " + other] + reqs[:h] + ["mode " + O.DEFAULT_MODE] + reqs[h:]
                else:
                    reqs = reqs[:h] + ["mode " + other] + reqs[h:] + ["mode " + O.DEFAULT_MODE]
            if batch == 0 and shard == 0 and getattr(prop, "ENV_MONITOR", True):
                env_monitor(prop, reqs, bins, wdir, shard, st)
            if getattr(prop, "COLD_START", True) and (batch == 0 or (tier == "thorough" and batch < 12)):
                cold_start(prop, reqs, rng, bins, wdir, shard, st)
            if getattr(prop, "LOCALITY", True):
                reqs = add_locality(reqs, rng)
            reqs = reqs + ["counts"]
            reqfile = os.path.join(wdir, "s%d.req" % shard)
            with open(reqfile, "w") as f:
                f.write("\n".join(reqs))
                f.write("\n")
            for bname, binary in bins:
                outfile = os.path.join(wdir, "s%d.%s.out" % (shard, bname))
                try:
                    p = run_probe(binary, reqfile, outfile)
                except subprocess.TimeoutExpired:
                    st.errors.append("watchdog: probe %s timed out on shard %d" % (bname, shard))
                    continue
                if p.returncode != 0:
                    st.errors.append("probe %s exited with %d: %s" % (bname, p.returncode, p.stderr[-500:].decode("utf-8", "replace")))
                    continue
                with open(outfile) as f:
                    out_lines = f.read().split("\n")
                if out_lines and out_lines[-1] == "":
                    out_lines.pop()
                judge_batch(prop, reqs, out_lines, bname, st)
            st.batches += 1
            batch += 1
            if batch >= max_batches or time.time() > deadline or len(st.violations) >= 25:
                break
    except Exception:
        st.errors.append("worker %d crashed: %s" % (shard, traceback.format_exc()[-1500:]))
    return st


def build_name(profile, feats):
    return profile + ("+" + "+".join(sorted(feats)) if feats else "")


def run_property(prop, tier, seed, budget_s=None):
    """Run one value property; returns (exit code, evidence dict)."""
    t0 = time.time()
    os.environ.setdefault("VERIF_RUN_ID", str(os.getpid()))
    n_self = O.selftest(random.Random(seed))
    if prop.ID in ("C12", "C13", "C16"):
        from . import hard
        n_self += hard.selftest()          # the modular-interval solver against brute force
    bins = []
    build_errors = []
    for profile, feats in prop.BUILDS[tier]:
        try:
            bins.append((build_name(profile, feats), B.build(profile, feats)))
        except B.BuildError as e:
            # one configuration does not compile: the others are still monitored (a violation found there is still a
            # violation); without one the run ends inconclusive, never "held"
            build_errors.append("build %s failed: %s" % (build_name(profile, feats), str(e)[-1500:]))
    if not bins:
        raise B.BuildError("\n".join(build_errors))
    t_build = time.time() - t0
    if budget_s is None:
        budget_s = float(os.environ.get("VERIF_BUDGET_S", "0") or 0) or (getattr(prop, "BUDGET", {"quick": 25, "thorough": 420})[tier])
    max_batches = getattr(prop, "MAX_BATCHES", {"quick": 1, "thorough": 10 ** 6})[tier]
    deadline = time.time() + budget_s
    nshards = getattr(prop, "SHARDS", NCPU)
    args = [(prop.__name__, tier, seed, s, nshards, bins, deadline, max_batches) for s in range(nshards)]
    with multiprocessing.Pool(min(NCPU, nshards)) as pool:
        results = pool.map(_worker, args)
    st = Stats()
    for r in results:
        st.merge(r)
    st.errors += build_errors
    return finish(prop, tier, seed, st, t0, {"oracle_selftest_cases": n_self, "build_s": round(t_build, 1),
                                             "builds": [b for b, _ in bins]})


def finish(prop, tier, seed, st, t0, extra, extra_coverage=None):
    pid = prop.ID
    code = 0
    lines = []
    # known findings
    for kid, e in sorted(st.kf.items()):
        info = F.get(kid)
        lines.append("KNOWN-FINDING: property=%s %s [%s, seen %d times, e.g. %s -> %s]"
                     % (pid, info["what_fails"], kid, e["count"], e["example"]["request"], e["example"]["event"]))
    required = dict(getattr(prop, "REQUIRED_SITES", {}))
    if tier == "thorough":
        required = {k: v * getattr(prop, "THOROUGH_SITE_FACTOR", 10) for k, v in required.items()}
    missing = {k: (st.sites.get(k, 0), v) for k, v in required.items() if st.sites.get(k, 0) < v}
    replay = None
    if st.violations:
        code = 1
        os.makedirs(os.path.join(B.ROOT, "replays"), exist_ok=True)
        replay = os.path.join(B.ROOT, "replays", "%s-%s-%d.req" % (pid, tier, seed))
        with open(replay, "w") as f:
            f.write("# property %s\n" % pid)
            for v in st.violations:
                f.write("# build=%s class=%s expected: %s observed: %s\n" % (v["build"], v["class"], v["expected"], v["event"]))
                f.write("mode %s\n%s\n" % (v["mode"], v["request"]))
        for v in st.violations[:5]:
            lines.append("  violating event: [%s, %s] %s -> %s ; expected %s" % (v["build"], v["mode"], v["request"], v["event"], v["expected"]))
        lines.append("VIOLATION property=%s replay=%s" % (pid, replay))
    elif st.errors:
        code = 3
        for e in st.errors[:5]:
            lines.append("HARNESS-ERROR: " + e.replace("\n", " | "))
        lines.append("INCONCLUSIVE property=%s (harness error)" % pid)
    elif missing:
        code = 3
        lines.append("INCONCLUSIVE property=%s targeted branches not reached: %s" % (pid, missing))
    elif st.evaluations == 0:
        code = 3
        lines.append("INCONCLUSIVE property=%s nothing observed" % pid)
    cov = {
        "evaluations": st.evaluations,
        "distinct_nontrivial": len(st.nontrivial),
        "rule": prop.RULE + (" (distinct count capped at %d per shard => lower bound)" % NT_CAP if len(st.nontrivial) >= NT_CAP else ""),
        "samples": st.samples[:6] if st.samples else [{"note": "no non-trivial sample recorded"}],
        "exhaustive": False,
        "outcome_histogram": st.outcomes,
        "class_histogram": st.labels,
        "events_per_build": st.per_build,
        "environment_variables_consulted": sorted(st.env_names),
        "events_per_mode": st.per_mode,
        "hook_site_hits": {k: v for k, v in sorted(st.sites.items()) if v},
        "required_sites": required,
        "known_findings_seen": {k: v["count"] for k, v in st.kf.items()},
        "batches": st.batches,
        "dimensions": {
            "operations": sorted(st.ops),
            "operand_forms": sorted(st.forms),
            "int_types": sorted(st.int_types),
            "scale_pairs_seen": len(st.scale_pairs),
            "scale_pairs_possible": "361 for Decimal/Decimal, +19 per side with an integer operand ('i')",
        },
    }
    if extra_coverage:
        cov.update(extra_coverage)
    cov.update(extra)
    ev = {
        "property_id": pid,
        "tier": tier,
        "seed": seed,
        "level": "exploration",
        "coverage": cov,
        "assumptions": list(getattr(prop, "ASSUMPTIONS", [])) + [
            "the Python oracles (vf/oracle.py) are correct; they are cross-checked against libmpdec / CPython float division on every run",
            "only executed inputs are decided; the verdict is 'held on everything observed'",
        ],
        "wall_s": round(time.time() - t0, 2),
        "violations": len(st.violations),
        "verdict": {0: "held on everything observed", 1: "violated", 3: "inconclusive"}[code],
    }
    write_evidence(pid, ev)
    for l in lines:
        print(l)
    print("%s %s tier=%s seed=%d: %d events, %d distinct non-trivial, %d builds, %.1fs -> %s"
          % (pid, prop.TITLE, tier, seed, st.evaluations, len(st.nontrivial), len([b for b in st.per_build if not b.endswith(":cold")]), time.time() - t0, ev["verdict"]))
    sys.stdout.flush()
    return code, ev


def write_evidence(pid, ev):
    d = os.path.join(B.ROOT, "evidence")
    os.makedirs(d, exist_ok=True)
    path = os.path.join(d, pid + ".json")
    tmp = path + ".tmp"
    with open(tmp, "w") as f:
        json.dump(ev, f, indent=1, sort_keys=True, default=str)
        f.write("\n")
    os.replace(tmp, path)


def replay(prop, path):
    """Re-execute the requests of a replay file on all quick builds and judge them again."""
    reqs = [l.strip() for l in open(path) if l.strip() and not l.startswith("#")]
    st = Stats()
    wdir = B.workdir(prop.ID)
    for profile, feats in prop.BUILDS["quick"]:
        bname = build_name(profile, feats)
        binary = B.build(profile, feats)
        reqfile = os.path.join(wdir, "replay.req")
        open(reqfile, "w").write("\n".join(reqs) + "\n")
        outfile = os.path.join(wdir, "replay.out")
        run_probe(binary, reqfile, outfile)
        out_lines = open(outfile).read().split("\n")
        if out_lines and out_lines[-1] == "":
            out_lines.pop()
        judge_batch(prop, reqs, out_lines, bname, st)
    for v in st.violations:
        print("  [%s, %s] %s -> %s ; expected %s" % (v["build"], v["mode"], v["request"], v["event"], v["expected"]))
    if st.violations:
        print("VIOLATION property=%s replay=%s" % (prop.ID, path))
        return 1
    if st.errors:
        print("INCONCLUSIVE", st.errors[:3])
        return 3
    print("replay of %s: %d events, no violation" % (path, st.evaluations))
    return 0


# ---------------------------------------------------------------------------
# sanitizer / interpreter reports

import re as _re

_REPO_FRAME = _re.compile(r"/repo/|fpdec_core::|[ <(]fpdec::|fpdec_macros::")


def classify_tool_output(err):
    """Look for a sanitizer / Miri / memcheck report in a tool's stderr.

    -> None (no report) or dict(kind, in_repo, snippet). A report counts for
    the property only if its stack mentions a frame of /repo's crates; an
    'unsupported operation' of Miri is a tool limitation (inconclusive).
    """
    start = -1
    kind = None
    for marker, k in (("ERROR: AddressSanitizer", "asan"), ("WARNING: ThreadSanitizer", "tsan"),
                      ("Undefined Behavior", "miri-ub"), ("error: unsupported operation", "miri-unsupported"),
                      ("Data race detected", "miri-race"), ("error: memory leaked", "miri-leak"),
                      ("error: abnormal termination", "miri-abort"), ("error: the evaluated program", "miri-other")):
        i = err.find(marker)
        if i >= 0 and (start < 0 or i < start):
            start, kind = i, k
    if kind is None:
        m = _re.search(r"==\d+== (Invalid (read|write)|Conditional jump|Use of uninitialised|Invalid free|Mismatched free)", err)
        if m:
            start, kind = m.start(), "memcheck"
    if kind is None:
        return None
    snippet = err[start:start + 5000]
    return {"kind": kind, "in_repo": bool(_REPO_FRAME.search(snippet)), "snippet": snippet[:2500]}


def run_tool(prop, name, cmd, env, reqs, wdir, timeout):
    """Run the probe under a tool on `reqs`; judge values too. Returns dict."""
    os.makedirs(wdir, exist_ok=True)
    reqfile = os.path.join(wdir, name + ".req")
    outfile = os.path.join(wdir, name + ".out")
    open(reqfile, "w").write("\n".join(reqs) + "\n")
    t0 = time.time()
    try:
        p = subprocess.run(cmd + [reqfile, outfile], env=env, stdout=subprocess.PIPE, stderr=subprocess.PIPE,
                           timeout=timeout, text=True, cwd=B.DRIVER)
    except subprocess.TimeoutExpired:
        return {"tool": name, "status": "inconclusive", "why": "watchdog after %ds" % timeout}
    res = {"tool": name, "requests": len(reqs), "wall_s": round(time.time() - t0, 1), "exit": p.returncode}
    rep = classify_tool_output(p.stderr)
    if rep is not None:
        if rep["kind"] == "miri-unsupported":
            res.update(status="inconclusive", why="tool: unsupported operation", report=rep["snippet"][:800])
        else:
            res.update(status="violation" if rep["in_repo"] else "foreign-report", kind=rep["kind"], report=rep["snippet"][:2000])
        return res
    if p.returncode != 0:
        res.update(status="inconclusive", why="tool exited with %d: %s" % (p.returncode, p.stderr[-500:]))
        return res
    out_lines = open(outfile).read().split("\n")
    if out_lines and out_lines[-1] == "":
        out_lines.pop()
    st = Stats()
    judge_batch(prop, reqs, out_lines, name, st)
    res.update(status="ok" if not st.violations and not st.errors else ("violation" if st.violations else "inconclusive"),
               events=st.evaluations, value_violations=st.violations[:3], errors=st.errors[:2])
    return res




def fold_tool_runs(pid, code, ev, tools, wdir, tier, seed):
    """Fold sanitizer / interpreter runs into verdict + evidence. Returns the new exit code."""
    ev["coverage"]["tool_runs"] = tools
    bad = [t for t in tools if t["status"] == "violation"]
    inconc = [t for t in tools if t["status"] == "inconclusive"]
    ev["coverage"]["evaluations"] += sum(t.get("events", 0) for t in tools)
    if bad and code != 1:
        rp = os.path.join(B.ROOT, "replays", "%s-%s-%s-%d.req" % (pid, bad[0]["tool"], tier, seed))
        src = os.path.join(wdir, bad[0]["tool"] + ".req")
        what = str(bad[0].get("report", bad[0].get("value_violations")))
        with open(rp, "w") as f:
            f.write("# property %s\n# tool %s\n# %s\n" % (pid, bad[0]["tool"], what[:1500].replace("\n", "\n# ")))
            if os.path.exists(src):
                f.write(open(src).read())
        print("  %s report: %s" % (bad[0]["tool"], what[:700]))
        print("VIOLATION property=%s replay=%s" % (pid, rp))
        code = 1
        ev["verdict"] = "violated"
        ev["violations"] = ev.get("violations", 0) + len(bad)
    elif inconc and code == 0:
        print("INCONCLUSIVE property=%s tool run: %s" % (pid, str(inconc[0])[:600]))
        code = 3
        ev["verdict"] = "inconclusive"
    print("%s tool runs: %s" % (pid, ", ".join("%s=%s(%s events, %ss)" % (t["tool"], t["status"], t.get("events", "-"), t.get("wall_s", "-")) for t in tools)))
    return code


def run_sweep(binary, args, timeout=3000):
    """Run an in-process exhaustive / bulk monitor of the probe (`--sweep-*`); parse MISMATCH and DONE lines."""
    t0 = time.time()
    try:
        p = subprocess.run([binary] + [str(a) for a in args], stdout=subprocess.PIPE, stderr=subprocess.PIPE,
                           timeout=timeout, text=True)
    except subprocess.TimeoutExpired:
        return {"ran": False, "error": "watchdog"}
    if p.returncode != 0:
        return {"ran": False, "error": "exit %d: %s" % (p.returncode, p.stderr[-300:])}
    res = {"ran": True, "args": [str(a) for a in args], "checked": 0, "mismatches": 0, "examples": [],
           "wall_s": round(time.time() - t0, 1)}
    done = False
    for line in p.stdout.split("\n"):
        if line.startswith("MISMATCH"):
            if len(res["examples"]) < 10:
                res["examples"].append(line)
        elif line.startswith("DONE"):
            done = True
            kv = dict(x.split("=") for x in line.split()[1:])
            res["checked"] = int(kv["checked"])
            res["mismatches"] = int(kv["mismatches"])
    if not done:
        return {"ran": False, "error": "no DONE line"}
    return res


def fold_sweep(pid, code, ev, key, sw, tier, seed, replay_lines):
    """Fold an in-process sweep into verdict and evidence; replay_lines(example) -> request line or None."""
    ev["coverage"][key] = sw
    if not sw.get("ran"):
        if code == 0:
            print("INCONCLUSIVE property=%s %s did not run: %s" % (pid, key, sw.get("error")))
            ev["verdict"] = "inconclusive"
            return 3
        return code
    ev["coverage"]["evaluations"] += sw["checked"]
    if sw["mismatches"] > 0 and code != 1:
        rp = os.path.join(B.ROOT, "replays", "%s-%s-%s-%d.req" % (pid, key, tier, seed))
        with open(rp, "w") as f:
            f.write("# property %s\n" % pid)
            for ex in sw["examples"]:
                f.write("# %s\n" % ex)
                r = replay_lines(ex)
                if r:
                    f.write(r + "\n")
        print("  %s disagreements: %s" % (key, sw["examples"][:3]))
        print("VIOLATION property=%s replay=%s" % (pid, rp))
        ev["violations"] = ev.get("violations", 0) + sw["mismatches"]
        ev["verdict"] = "violated"
        return 1
    return code
