"""./check <ID> [--tier quick|thorough] | setup | replay <path> | all"""

import importlib
import os
import sys
import time

from . import build as B


def load(pid):
    return importlib.import_module("vf.props." + pid.lower())


PROPS = ["C%02d" % i for i in range(1, 21)]


def main(argv):
    if not argv:
        print(__doc__)
        return 2
    cmd = argv[0]
    tier = os.environ.get("VERIF_TIER", "quick")
    if "--tier" in argv:
        tier = argv[argv.index("--tier") + 1]
    if tier not in ("quick", "thorough"):
        tier = "quick"
    seed = int(os.environ.get("VERIF_SEED", "1") or 1)
    if cmd == "setup":
        from . import oracle
        import random
        t0 = time.time()
        n = oracle.selftest(random.Random(seed))
        print("oracle self-test: %d cases ok" % n)
        from . import hard
        print("solver self-test: %d cases ok" % hard.selftest())
        print("getenv shim: %s" % (B.getenv_shim() or "not built (no C compiler) - the environment monitor will be skipped"))
        for profile, feats in (("dev", ()), ("release", ()), ("dev", ("full",)), ("release", ("full",)),
                               ("release", ("packed",)), ("o0-nochk", ()), ("release", ("full", "packed"))):
            B.build(profile, feats, quiet=False)
        # sanitizer / interpreter builds (warm the caches; a failure here is not fatal for setup)
        import subprocess
        for profile, feats in (("release", ()), ("release", ("full", "packed")), ("release", ("full",))):
            try:
                B.build(profile, feats, kind="asan", quiet=False)
            except B.BuildError as e:
                print("warning: asan build failed: %s" % str(e)[-300:])
        try:
            B.build("dev", (), kind="tsan", quiet=False)
        except B.BuildError as e:
            print("warning: tsan build failed: %s" % str(e)[-300:])
        tiny = os.path.join(B.WORK, "setup.req")
        os.makedirs(B.WORK, exist_ok=True)
        open(tiny, "w").write("parse S31\n")
        for feats, rel in (((), True), (("full", "packed"), False), ((), False)):
            cmd, env = B.miri_cmd(feats, release=rel)
            env["MIRIFLAGS"] = "-Zmiri-disable-isolation"
            t1 = time.time()
            p = subprocess.run(cmd + ["--", tiny], env=env, cwd=B.DRIVER, stdout=subprocess.PIPE, stderr=subprocess.PIPE, text=True)
            print("miri warm-up (features=%s release=%s): rc=%d in %.1fs" % (",".join(feats) or "-", rel, p.returncode, time.time() - t1))
        print("setup done in %.1fs" % (time.time() - t0))
        return 0
    if cmd == "replay":
        path = argv[1]
        pid = None
        for l in open(path):
            if l.startswith("# property "):
                pid = l.split()[2]
                break
        if pid is None:
            print("replay file has no '# property' header")
            return 3
        prop = load(pid)
        if hasattr(prop, "replay"):
            return prop.replay(path)
        from . import engine
        return engine.replay(prop, path)
    if cmd == "all":
        rc = 0
        for pid in PROPS:
            try:
                prop = load(pid)
            except ImportError:
                continue
            r = prop.main(tier, seed)
            rc = max(rc, r)
        return rc
    pid = cmd.upper()
    prop = load(pid)
    os.environ.setdefault("VERIF_RUN_ID", str(os.getpid()))
    try:
        return prop.main(tier, seed)
    except B.BuildError as e:
        print("INCONCLUSIVE property=%s build failed:\n%s" % (pid, e))
        return 3
    finally:
        B.cleanup_workdir(pid)


if __name__ == "__main__":
    sys.exit(main(sys.argv[1:]))
