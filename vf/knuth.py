"""Input construction for the rare corners of the 256/128-bit division.

This is a transcription of the *shape* of Algorithm D for 4-by-2 words (normalise, estimate a quotient digit
from the two top words, correct it at most twice, early exit when the running remainder reaches 2^64). It is
used ONLY to construct and classify operands - which corner does a dividend/divisor pair exercise? - never as
an oracle: verdicts always come from Python's divmod.

Corners built here (each has probability ~2^-64 under random or limb-structured operands):
  q1.rhat_eq_b : after a correction of the FIRST quotient digit the running remainder is exactly 2^64
  q0.rhat_eq_b : the same for the SECOND quotient digit
"""

B = 1 << 64
MASK = B - 1
M = (1 << 127) - 1


def trace(D, y):
    """Classify the division of the 256-bit D by the 128-bit y (y >= 2^64, D >> 128 < y).
    Returns a dict of corner flags, or None if the precondition does not hold."""
    if y < B or y > M + 1 or (D >> 128) >= y or D < 0:
        return None
    n_bits = 128 - y.bit_length()
    yn = y << n_bits
    yn1, yn0 = yn >> 64, yn & MASK
    Dn = D << n_bits
    xn32 = Dn >> 128
    xn1 = (Dn >> 64) & MASK
    xn0 = Dn & MASK
    flags = {"q1_dec": 0, "q0_dec": 0, "q1_rhat_eq_b": False, "q0_rhat_eq_b": False, "q1_eq": False, "q0_eq": False,
             "q1_break": False, "q0_break": False, "q1_est_gt_b": False, "q0_est_gt_b": False}
    q1, rhat = divmod(xn32, yn1)
    flags["q1_est_gt_b"] = q1 > B
    while q1 >= B or q1 * yn0 > rhat * B + xn1:
        q1 -= 1
        rhat += yn1
        flags["q1_dec"] += 1
        if rhat >= B:
            flags["q1_break"] = True
            flags["q1_rhat_eq_b"] = rhat == B
            break
    else:
        flags["q1_eq"] = q1 * yn0 == rhat * B + xn1
    t = (xn32 * B + xn1 - q1 * yn) % (1 << 128)
    q0, rhat = divmod(t, yn1)
    flags["q0_est_gt_b"] = q0 > B
    while q0 >= B or q0 * yn0 > rhat * B + xn0:
        q0 -= 1
        rhat += yn1
        flags["q0_dec"] += 1
        if rhat >= B:
            flags["q0_break"] = True
            flags["q0_rhat_eq_b"] = rhat == B
            break
    else:
        flags["q0_eq"] = q0 * yn0 == rhat * B + xn0
    return flags


def _divisor(rng, slack_bits):
    """A divisor with its top bit at position 126 (normalisation shift 1) whose top normalised word yn1 is within
    2^slack_bits of 2^64, and a large low word."""
    yn1 = B - rng.randrange(1, 1 << slack_bits)
    yn0 = (rng.getrandbits(63) | (1 << 63)) & ~1          # even, so that yn >> 1 is exact
    yn = (yn1 << 64) | yn0
    return yn >> 1, yn1, yn0


def corner_q1(rng, slack_bits=50, q1_bits=56):
    """(D_lo, D_hi, y): every 256-bit D in [D_lo, D_hi) drives the first digit's remainder to exactly 2^64."""
    y, yn1, yn0 = _divisor(rng, slack_bits)
    rhat0 = B - yn1                         # < 2^slack_bits
    q1 = rng.randrange(4 * rhat0 + 4, 1 << q1_bits)
    xn32 = q1 * yn1 + rhat0
    # loop condition q1*yn0 > rhat0*B + xn1 holds for every xn1 < 2^63 (q1 >= 4*rhat0+4, yn0 >= 2^63)
    lo = (xn32 << 128) >> 1
    hi = ((xn32 << 128) + (1 << 127)) >> 1
    return lo, hi, y


def corner_q0(rng):
    """(D_lo, D_hi, y) for the second digit: first digit 0, partial remainder t = q0e*yn1 + (2^64 - yn1)."""
    y, yn1, yn0 = _divisor(rng, 30)
    rhat0 = B - yn1                         # < 2^30
    q0e = rng.randrange(4 * rhat0 + 4, 1 << 40)
    t = q0e * yn1 + rhat0                   # < yn, so the first digit is 0 and t is the partial remainder
    lo = (t << 64) >> 1
    hi = ((t << 64) + (1 << 63)) >> 1
    return lo, hi, y


def product_in(rng, lo, hi, max_factor=M):
    """x1, x2 <= max_factor with lo <= x1*x2 < hi, or None."""
    width = hi - lo
    for _ in range(50):
        bits = max(2, min(width.bit_length() - 1, 126))
        x1 = rng.getrandbits(rng.randrange(max(2, bits - 8), bits + 1)) | 1
        if x1 <= 1 or x1 > width:
            continue
        x2 = -(-lo // x1)
        if x2 <= max_factor and lo <= x1 * x2 < hi:
            return x1, x2
    return None


def shifted_in(lo, hi, max_p=38):
    """(x, p) with lo <= x * 10^p < hi and x <= M, largest usable p first; or None."""
    width = hi - lo
    for p in range(max_p, -1, -1):
        t = 10 ** p
        if t > width:
            continue
        x = -(-lo // t)
        if x <= M and lo <= x * t < hi:
            return x, p
    return None


def corner_requests(rng, n):
    """Kernel requests that hit the 2^64 corners (verified with trace())."""
    out = []
    stats = {"q1": 0, "q0": 0}
    for _ in range(n):
        for which, ctor in (("q1", corner_q1), ("q0", corner_q0)):
            lo, hi, y = ctor(rng)
            if rng.random() < 0.5:
                lo = lo + rng.randrange(0, hi - lo)          # a random point inside the window, not only its start
            pr = product_in(rng, lo, hi)
            if pr:
                x1, x2 = pr
                f = trace(x1 * x2, y)
                if f and f[which + "_rhat_eq_b"]:
                    s1 = rng.choice((1, -1))
                    s2 = rng.choice((1, -1))
                    out.append("k_i256 %d %d %d" % (s1 * x1, s2 * x2, y))
                    stats[which] += 1
            sh = shifted_in(lo, hi)
            if sh:
                x, p = sh
                f = trace(x * 10 ** p, y)
                if f and f[which + "_rhat_eq_b"]:
                    out.append("k_shdm %d %d %d" % (rng.choice((1, -1)) * x, p, y))
                    stats[which] += 1
    return out, stats


def api_corner_requests(rng, n, fD):
    """Decimal divisions (x @ p) / (y @ q) whose scaled dividend x * 10^(18+q-p) hits a 2^64 corner.
    fD formats a Decimal operand. Returns request lines `div <form> <lhs> <rhs>`."""
    out = []
    for _ in range(n):
        for which, ctor in (("q1", lambda r: corner_q1(r, 30, 42)), ("q0", corner_q0)):
            lo, hi, y = ctor(rng)
            sh = shifted_in(lo, hi, 36)
            if not sh:
                continue
            x, k = sh
            f = trace(x * 10 ** k, y)
            if not (f and f[which + "_rhat_eq_b"]):
                continue
            # 18 + q - p == k
            qs = [q for q in range(19) if 0 <= 18 + q - k <= 18]
            if not qs:
                continue
            q = rng.choice(qs)
            p = 18 + q - k
            sx, sy = rng.choice((1, -1)), rng.choice((1, -1))
            out.append("%s %s %s %s" % (rng.choice(("div", "cdiv")), rng.choice(("vv", "*", "rr")), fD(sx * x, p), fD(sy * y, q)))
    return out


def hi_eq_divisor_requests(rng, n, fD):
    """Divisions whose scaled dividend's upper 128-bit word equals the divisor (+-1): true quotient ~ 2^128."""
    out = []
    for _ in range(n):
        k = rng.randrange(20, 37)
        y = rng.randrange(1 << 64, min(10 ** k // 2, M) + 1)
        for dy in (-1, 0, 1):
            x = -((-(y + dy) << 128) // 10 ** k)
            if not 0 < x <= M:
                continue
            qs = [q for q in range(19) if 0 <= 18 + q - k <= 18]
            if not qs:
                continue
            q = rng.choice(qs)
            p = 18 + q - k
            out.append("%s %s %s %s" % (rng.choice(("div", "cdiv")), rng.choice(("vv", "*")), fD(rng.choice((1, -1)) * x, p), fD(rng.choice((1, -1)) * y, q)))
    return out


def small_divisor_top_word_requests(rng, n):
    """Divisors below 2^64 with a dividend whose upper 128-bit word is c*y*2^64 + d (d < y): the quotient needs
    more than 192 bits and its second-highest 64-bit word vanishes - overflow must still be reported."""
    out = []
    for _ in range(n):
        y = rng.getrandbits(rng.randrange(2, 40)) + 2
        c = rng.getrandbits(rng.randrange(1, 20)) + 1
        d = rng.randrange(0, y)
        xh = c * y * B + d
        lo, hi = xh << 128, (xh + 1) << 128
        pr = product_in(rng, lo, hi)
        if pr:
            out.append("k_i256 %d %d %d" % (rng.choice((1, -1)) * pr[0], rng.choice((1, -1)) * pr[1], y))
        sh = shifted_in(lo, hi)
        if sh:
            out.append("k_shdm %d %d %d" % (rng.choice((1, -1)) * sh[0], sh[1], y))
            out.append("k_shdr %d %d %d RoundHalfEven" % (sh[0], sh[1], rng.choice((1, -1)) * y))
    return out


def api_small_divisor_top_word(rng, n, fD, fixed_n=None):
    """API-level version of small_divisor_top_word_requests: mul_rounded / div_rounded operands whose 256-bit
    intermediate has the upper 128-bit word c*y*2^64 + d (d < y) where y is the 64-bit divisor actually used
    (10^shift for mul_rounded, the divisor coefficient for div_rounded). The true result is far beyond i128, so
    the operation must signal. Returns (op, lhs, rhs, n_frac) tuples."""
    out = []
    for _ in range(n):
        # mul_rounded: shift s = p + q - n, divisor 10^s
        s = rng.randrange(1, 19)
        y = 10 ** s
        cmax = (1 << 61) // y
        if cmax >= 1:
            c = rng.randrange(1, cmax + 1)
            d = rng.randrange(0, y) if rng.random() < 0.8 else 0
            xh = c * y * B + d
            pr = product_in(rng, xh << 128, (xh + 1) << 128)
            if pr:
                for _try in range(20):
                    p, q = rng.randrange(0, 19), rng.randrange(0, 19)
                    if fixed_n is not None:
                        q = fixed_n + s - p
                        if not 0 <= q <= 18:
                            continue
                    if 0 <= p + q - s <= 18:
                        out.append(("mulr", fD(rng.choice((1, -1)) * pr[0], p), fD(rng.choice((1, -1)) * pr[1], q), p + q - s))
                        break
        # div_rounded: dividend x * 10^k, k = n + q - p, divisor coefficient y < 2^64
        k = rng.randrange(22, 37)
        cy_max = (10 ** k) >> 65
        y = rng.randrange(2, max(3, min(cy_max, 1 << 63)))
        if rng.random() < 0.3:
            y = rng.choice((2, 3, 7, 10, 10 ** rng.randrange(1, 8), 1 << rng.randrange(1, 12)))
        if cy_max // y < 1:
            continue
        c = rng.randrange(1, cy_max // y + 1)
        d = rng.randrange(0, y)
        xh = c * y * B + d
        lo = xh << 128
        x = -(-lo // 10 ** k)
        if x <= M and x * 10 ** k < lo + (1 << 128):
            for _try in range(40):
                nn, q = rng.randrange(0, 19), rng.randrange(0, 19)
                if fixed_n is not None:
                    nn = fixed_n
                p = nn + q - k
                if 0 <= p <= 18:
                    out.append(("divr", fD(rng.choice((1, -1)) * x, p), fD(rng.choice((1, -1)) * y, q), nn))
                    break
    return out


def _divisor_lo_gt_hi(rng):
    """A divisor >= 2^64 whose normalised low word exceeds its normalised high word (only then can a quotient-digit
    estimate reach 2^64 + 1). Returns (y, n_bits, yn1, yn0)."""
    for _ in range(100):
        bl = rng.randrange(65, 128)
        n_bits = 128 - bl
        yn1 = rng.randrange(1 << 63, (1 << 64) - 2)
        if rng.random() < 0.5:
            yn1 = (1 << 63) + rng.getrandbits(rng.randrange(1, 62))
        yn0 = rng.randrange(yn1 + 1, 1 << 64)
        yn0 &= ~((1 << n_bits) - 1)
        if yn0 <= yn1:
            continue
        return ((yn1 << 64) | yn0) >> n_bits, n_bits, yn1, yn0
    return None


def first_in_range(A, Mod, L, R):
    """Smallest x >= 0 with L <= A * x mod Mod <= R (0 <= L <= R < Mod), or -1. Euclid-like, O(log Mod)
    (validated against brute force in vf.hard.selftest)."""
    if L == 0:
        return 0
    A %= Mod
    if A == 0:
        return -1
    if 2 * A > Mod:
        return first_in_range(Mod - A, Mod, Mod - R, Mod - L)
    k = -(-L // A)
    if k * A <= R:
        return k
    y = first_in_range(A - Mod % A, A, L % A, R % A)
    if y < 0:
        return -1
    return (L + Mod * y + A - 1) // A


def est_gt_b_operand(which, K, y):
    """x with 0 < x <= M such that the division of D = x * K by y (y >= 2^64, normalised low word > high word) meets a
    quotient-digit estimate of 2^64 + 1 in the first ('q1') or second ('q0') digit; or None.
    With Dn = D << n_bits and top = Dn >> 64 the condition is: q1: top >> 64 in [(B+1)*yn1, yn); q0: top mod yn in
    [(B+1)*yn1, yn) (and top < yn * 2^64, the kernel's precondition)."""
    n_bits = 128 - y.bit_length()
    yn = y << n_bits
    yn1, yn0 = yn >> 64, yn & MASK
    if yn0 <= yn1 or y < B:
        return None
    g = K << n_bits
    tz = (g & -g).bit_length() - 1
    j = max(0, 64 - tz)                 # x must be a multiple of 2^j so that the low 64 bits of Dn vanish
    a = (g << j) >> 64
    L, R = (B + 1) * yn1, yn - 1
    if which == "q1":
        xp = -(-(L << 64) // a)
        if xp * a >= yn << 64:
            return None
    else:
        xp = first_in_range(a, yn, L, R)
        if xp <= 0 or xp * a >= yn << 64:
            return None
    x = xp << j
    if not 0 < x <= M:
        return None
    f = trace(x * K, y)
    if not f or not f[which + "_est_gt_b"]:
        return None
    return x


def est_gt_b_requests(rng, n, fD):
    """Kernel and API requests whose division hits a quotient-digit estimate of 2^64 + 1 (verified with trace())."""
    out = []
    stats = {"q1": 0, "q0": 0}
    for _ in range(n):
        for which in ("q1", "q0"):
            # product / divisor: x1 * x2 / y, also as mul_rounded when y = 10^32
            for y in (None, 10 ** 32):
                if y is None:
                    d = _divisor_lo_gt_hi(rng)
                    if d is None:
                        continue
                    y = d[0]
                x2 = rng.getrandbits(rng.randrange(40, 127)) | 1
                if rng.random() < 0.5:
                    x2 <<= rng.randrange(1, 40)
                    x2 = min(x2, M)
                x1 = est_gt_b_operand(which, x2, y)
                if x1:
                    stats[which] += 1
                    out.append("k_i256 %d %d %d" % (rng.choice((1, -1)) * x1, rng.choice((1, -1)) * x2, y))
                    if y == 10 ** 32:
                        for _try in range(20):
                            p, q = rng.randrange(14, 19), rng.randrange(14, 19)
                            if 0 <= p + q - 32 <= 18:
                                out.append("mulr vv %s %s %d" % (fD(x1, p), fD(-x2, q), p + q - 32))
                                out.append("mulr rr %s %s %d" % (fD(-x2, q), fD(-x1, p), p + q - 32))
                                break
            # scaled dividend / divisor: x * 10^k / y
            d = _divisor_lo_gt_hi(rng)
            if d is None or d[0] > M:
                continue
            y = d[0]
            k = rng.randrange(1, 37)
            x = est_gt_b_operand(which, 10 ** k, y)
            if x:
                stats[which] += 1
                out.append("k_shdm %d %d %d" % (rng.choice((1, -1)) * x, k, y))
                out.append("k_shdr %d %d %d %s" % (x, k, rng.choice((1, -1)) * y, rng.choice(("RoundHalfEven", "RoundUp", "RoundFloor"))))
                qs = [q for q in range(19) if 0 <= 18 + q - k <= 18]
                if qs:
                    q = rng.choice(qs)
                    out.append("%s %s %s %s" % (rng.choice(("div", "cdiv")), rng.choice(("vv", "*", "rr")),
                                                fD(rng.choice((1, -1)) * x, 18 + q - k), fD(rng.choice((1, -1)) * y, q)))
                for _try in range(10):
                    nn, q = rng.randrange(0, 19), rng.randrange(0, 19)
                    if 0 <= nn + q - k <= 18:
                        out.append("divr vv %s %s %d" % (fD(x, nn + q - k), fD(rng.choice((1, -1)) * y, q), nn))
                        break
    return [r for r in out if r], stats


def exact_multiple_requests(rng, n, fD):
    """Divisions in which the two-word value a quotient digit is estimated from is an EXACT multiple k * yn1 of the
    divisor's normalised high word (estimate remainder 0) while the normalised low word is tiny (0, 2, 4, ...), so that the
    estimate is already the true digit - the case in which reciprocal-based estimators need their last, rare fix-up.
    First ('q1') and second ('q0', first digit 0) quotient digit; kernel and API requests."""
    out = []
    for _ in range(n):
        for which in ("q1", "q0"):
            n_bits = rng.choice((1, 1, 2, 3, 8, 20, 40))
            z = rng.random()
            if z < 0.45:
                yn1 = (1 << 63) + rng.getrandbits(rng.randrange(2, 52))      # barely normalised: just above 2^63
            elif z < 0.6:
                yn1 = rng.randrange(1 << 63, int(1.01 * (1 << 63)))
            elif z < 0.7:
                yn1 = rng.choice(((1 << 63) + rng.randrange(0, 4), (1 << 64) - 1 - rng.randrange(0, 4)))
            else:
                yn1 = rng.randrange(1 << 63, 1 << 64)
            yn0 = rng.choice((0, 1, 2, 3)) << n_bits
            if yn0 >> 64:
                continue
            yn = (yn1 << 64) | yn0
            y = yn >> n_bits
            kmax = (1 << 63) if which == "q1" else (1 << 62)
            if yn0:
                kmax = min(kmax, ((1 << 64) - 1) // yn0)                         # k * yn0 must fit the next word
            z = rng.random()
            if z < 0.5:
                k = max(1, kmax - 1 - rng.getrandbits(rng.randrange(1, max(2, kmax.bit_length() - 1))))   # near its maximum
            elif z < 0.6:
                k = rng.choice((1, 2, 3, (1 << 32) - 1, 1 << 32, (1 << 58) - 1))
            else:
                k = rng.randrange(1, kmax)
            t = k * yn1
            if which == "q1":
                lo_n, hi_n = t << 128, (t + 1) << 128
            else:
                lo_n, hi_n = t << 64, (t + 1) << 64
            lo, hi = -(-lo_n >> n_bits), -(-hi_n >> n_bits)
            if hi <= lo or (lo >> 128) >= y:
                continue
            # aim at a random point inside the window (the words below the estimate numerator must be free to be
            # large: whether the estimate is the true digit depends on them)
            if rng.random() < 0.8:
                lo = lo + rng.randrange(0, hi - lo)
            pr = product_in(rng, lo, hi)
            if pr:
                out.append("k_i256 %d %d %d" % (rng.choice((1, -1)) * pr[0], rng.choice((1, -1)) * pr[1], y))
            sh = shifted_in(lo, hi, 36)
            if sh and y <= M:
                x, kk = sh
                out.append("k_shdm %d %d %d" % (rng.choice((1, -1)) * x, kk, y))
                qs = [q for q in range(19) if 0 <= 18 + q - kk <= 18]
                if qs:
                    q = rng.choice(qs)
                    out.append("%s %s %s %s" % (rng.choice(("div", "cdiv")), rng.choice(("vv", "*", "rr")),
                                                fD(rng.choice((1, -1)) * x, 18 + q - kk), fD(rng.choice((1, -1)) * y, q)))
                for _try in range(10):
                    nn, q = rng.randrange(0, 19), rng.randrange(0, 19)
                    if 0 <= nn + q - kk <= 18:
                        out.append("divr vv %s %s %d" % (fD(x, nn + q - kk), fD(rng.choice((1, -1)) * y, q), nn))
                        break
    return out
