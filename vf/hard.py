"""Construction of hard rounding cases with a modular-interval solver.

first_in_range(A, Mod, L, R) returns the smallest x >= 0 with L <= A*x mod Mod <= R in O(log Mod) (a Euclid-like descent).
With it the inputs that sit closest to a rounding boundary - the ones a conversion that rounds twice, truncates an
intermediate or judges inexactness from a partial word gets wrong - can be *computed* for 64- and 128-bit operands, where the
exhaustive scans used for f32 are out of reach. It is used only to build inputs; verdicts come from the exact oracles.
"""

from .knuth import first_in_range

M = (1 << 127) - 1


def solve_in(A, Mod, L, R, lo, hi):
    """Smallest x in [lo, hi) with (A * x) mod Mod in the cyclic interval [L, R] (L, R taken mod Mod; if L > R the interval
    wraps through 0), or None."""
    if hi <= lo or Mod <= 0:
        return None
    A %= Mod
    off = (A * lo) % Mod
    L2, R2 = (L - off) % Mod, (R - off) % Mod
    cands = []
    if L2 <= R2:
        parts = [(L2, R2)]
    else:
        parts = [(L2, Mod - 1), (0, R2)]
    for l, r in parts:
        x = first_in_range(A, Mod, l, r) if A else (0 if l == 0 else -1)
        if x is not None and x >= 0:
            cands.append(x)
    if not cands:
        return None
    x = min(cands) + lo
    return x if x < hi else None


def dec_to_float_hard(rng, mant, s, e, density=8):
    """Coefficients c (0 < c <= M) with 2^e <= c / 10^s < 2^(e+1) whose value lies extremely close to (but not on) the
    midpoint of two adjacent binary floats with `mant` significant bits - about as close as any value of that binade and
    scale gets (within a factor `density` of the optimum). Returns a list of c (possibly empty)."""
    t10 = 10 ** s
    lo = -((-(t10 << e)) >> 0) if e >= 0 else -(-t10 // (1 << -e))
    hi = (t10 << (e + 1)) if e + 1 >= 0 else -(-t10 // (1 << -(e + 1)))
    lo, hi = max(lo, 1), min(hi, M + 1)
    if hi - lo < 4:
        return []
    t = mant - 1 - e
    if t + 1 >= 0:
        A, Mod = 1 << (t + 1), 2 * t10
    else:
        A, Mod = 1, 2 * t10 << (-t - 1)
    target = Mod // 2
    delta = max(1, density * Mod // (hi - lo))
    if delta >= Mod // 4:
        return []
    out = []
    for L, R in ((target + 1, target + delta), (target - delta, target - 1)):
        start = rng.randrange(lo, hi)
        for a, b in ((start, hi), (lo, start)):
            c = solve_in(A, Mod, L, R, a, b)
            if c is not None:
                out.append(c)
                break
    return out


def float_to_dec_hard(rng, mant, e2, digits=18, density=8):
    """Significands m (2^(mant-1) <= m < 2^mant) such that m * 2^e2 * 10^digits lies extremely close to (but not on)
    k + 1/2 for an integer k: the near-ties of rounding the float to `digits` fractional digits. e2 < -digits."""
    k = -e2 - digits
    if k < 2:
        return []
    Mod = 1 << k
    A = 5 ** digits
    lo, hi = 1 << (mant - 1), 1 << mant
    target = Mod // 2
    delta = max(1, density * Mod // (hi - lo))
    if delta >= Mod // 4:
        return []
    out = []
    for L, R in ((target + 1, target + delta), (target - delta, target - 1)):
        start = rng.randrange(lo, hi)
        for a, b in ((start, hi), (lo, start)):
            m = solve_in(A, Mod, L, R, a, b)
            if m is not None:
                out.append(m)
                break
    return out


def selftest():
    import random
    rng = random.Random(7)
    n = 0
    for _ in range(3000):
        Mod = rng.randrange(2, 500)
        A = rng.randrange(0, Mod)
        L, R = rng.randrange(0, Mod), rng.randrange(0, Mod)
        lo = rng.randrange(0, 300)
        hi = lo + rng.randrange(0, 300)
        exp = None
        for x in range(lo, hi):
            v = A * x % Mod
            if (L <= v <= R) if L <= R else (v >= L or v <= R):
                exp = x
                break
        got = solve_in(A, Mod, L, R, lo, hi)
        assert got == exp, (A, Mod, L, R, lo, hi, exp, got)
        n += 1
    from fractions import Fraction
    for mant in (53, 24):
        for _ in range(300):
            s = rng.randrange(0, 19)
            e = rng.randrange(-60, 126)
            for c in dec_to_float_hard(rng, mant, s, e):
                v = Fraction(c, 10 ** s)
                assert Fraction(2) ** e <= v < Fraction(2) ** (e + 1), (c, s, e)
                ulp = Fraction(2) ** (e - mant + 1)
                frac = (v / ulp) % 1
                d = abs(frac - Fraction(1, 2))
                assert 0 < d, (c, s, e)
                # about as close as the binade allows: distance * (number of candidates) is O(density)
                span = (10 ** s) * Fraction(2) ** e
                t = mant - 1 - e
                mod = 2 * 10 ** s if t + 1 >= 0 else (2 * 10 ** s) << (-t - 1)
                assert d * min(span, mod) <= 16, (c, s, e, float(d), float(span))
                n += 1
    for mant in (53, 24):
        for e2 in range(-140, -19):
            for m in float_to_dec_hard(rng, mant, e2):
                x = Fraction(m) * Fraction(2) ** e2 * 10 ** 18
                d = abs(x % 1 - Fraction(1, 2))
                assert 0 < d and d * min(1 << (mant - 1), 1 << (-e2 - 18)) <= 16, (m, e2, float(d))
                n += 1
    return n


if __name__ == "__main__":
    print("hard.selftest ok, %d cases" % selftest())
