"""C03 - division yields the quotient correctly rounded to 18 fractional digits."""

import random
import sys

from .. import engine as E
from .. import gen as G
from ..oracle import M, P10, MODES, in_i128, OP_INT_TYPES, INT_TYPES
from .. import knuth as K
from . import arith as A
from . import common as C

ID = "C03"
TITLE = "Division yields the quotient correctly rounded to 18 fractional digits"
RULE = ("requests `div|cdiv <form> <lhs> <rhs>` under each of the 8 thread rounding modes, all operand shapes "
        "and forms (incl. /=); constructed: exact ties a=c*m, b=2^(k+1)*c; nearest-to-tie remainders (b+-1)/2 for "
        "127-bit odd divisors via modular inverses; scaled dividends of 128..190 bits (wide path) with "
        "negative / exact / tie outcomes; quotients around +-(2^127-1) incl. floor quotient == 2^127-1 with "
        "remainder; quotients with < 18 digits (normalisation); zero / one operands in all representations. "
        "Non-trivial = scaled dividend exceeds i128, or remainder within 1 of a tie, or exact quotient, or "
        "|quotient| within 2 of 2^127")
BUILDS = {"quick": [("dev", ()), ("release", ())],
          "thorough": [("dev", ()), ("release", ()), ("release", ("packed",)), ("o0-nochk", ())]}
ASSUMPTIONS = [C.GRID_NOTE]
REQUIRED_SITES = {"divr.eq": 100, "divr.less.narrow": 100, "divr.less.wide": 100,
                  "shdm.neg_pos": 50, "shdm.exact_neg": 20, "shdm.none": 20, "round_quot.tie": 50,
                  "round_quot.overflow": 2, "knuth": 100, "idiv64": 100,
                  "knuth.q1.rhat_eq_b": 20, "knuth.q0.rhat_eq_b": 20, "knuth.q0.est_gt_b": 5}
BUDGET = {"quick": 25, "thorough": 300}
N_RANDOM = {"quick": 1500, "thorough": 5000}


def check(toks, resp, mode, build):
    op, form = toks[0], toks[1]
    l = C.operand(toks[2])
    r = C.operand(toks[3])
    spec = A.expected_div(op, l, r, mode)
    checked = op == "cdiv"
    verdict = A.judge(spec, form, resp, checked)
    a, p, _ = l
    b, q, _ = r
    nontriv = False
    if b != 0 and a != 0:
        e = 18 + q - p
        num, den = (a * P10[e], b) if e >= 0 else (a, b * P10[-e])
        rem = abs(num) % abs(den)
        nontriv = (not in_i128(num)) or rem == 0 or abs(2 * rem - abs(den)) <= 2 \
            or abs(abs(num) // abs(den) - (M + 1)) <= 2
    label = "%s.%s.%s" % (op, A.shape_of(l, r), spec[0])
    return verdict, label, nontriv, A.spec_text(spec, checked)


def constructed(rng):
    out = []

    def dd(a, p, b, q, op=None):
        if abs(a) > M or abs(b) > M:
            return
        op = op or rng.choice(("div", "div", "cdiv"))
        form = rng.choice(("*", "vv", "rv", "vr", "rr") + (("av", "ar") if op == "div" else ()))
        out.append("%s %s %s %s" % (op, form, G.fD(a, p), G.fD(b, q)))

    def sg(x):
        return x if rng.random() < 0.5 else -x

    # 1. exact ties: a = c*m, b = 2^(k+1)*c, k = 18+q-p, m odd
    for _ in range(150):
        p = rng.randrange(0, 19)
        q = rng.randrange(0, 19)
        k = 18 + q - p
        if k < 0:
            continue
        c = rng.getrandbits(rng.randrange(1, 80)) | 1
        b = (1 << (k + 1)) * c
        m = rng.getrandbits(rng.randrange(1, 40)) | 1
        a = c * m
        if rng.random() < 0.4:
            # steer the quotient parity / last digit
            a = c * (2 * rng.randrange(0, 50) + 1)
        dd(sg(a), p, sg(b), q)
    # 2. nearest-to-tie remainders for big odd divisors
    for _ in range(150):
        p = rng.randrange(0, 19)
        q = rng.randrange(0, 19)
        k = 18 + q - p
        if k < 0:
            continue
        b = rng.getrandbits(rng.choice((127, 126, 120, 100, 65, 64))) | 1
        if b % 5 == 0:
            b += 2
        if b > M or b < 3:
            continue
        inv = pow(P10[k], -1, b)
        for r in ((b - 1) // 2, (b + 1) // 2):
            a = (r * inv) % b
            dd(sg(a), p, sg(b), q)
    # 3. wide path: scaled dividend beyond i128, quotient fits; exact, negative
    for _ in range(200):
        q = rng.randrange(0, 19)
        p = rng.randrange(0, min(18, q + 8) + 1)
        k = 18 + q - p
        if k < 1:
            continue
        b = rng.getrandbits(rng.randrange(max(2, min(127, k * 3 + 2)), 128))
        if b < 2 or b > M:
            continue
        kind = rng.randrange(3)
        if kind == 0:
            a = rng.getrandbits(rng.randrange(60, 127))
        elif kind == 1:
            # exact: a*10^k = Q*b  with b = b' * 2^i 5^j
            i, j = rng.randrange(0, k + 1), rng.randrange(0, k + 1)
            bb = rng.getrandbits(rng.randrange(30, 90)) | 1
            b = bb * (1 << i) * (5 ** j)
            a = bb * rng.getrandbits(rng.randrange(1, 30))
        else:
            a = M // rng.randrange(1, 1000)
        if a == 0 or b == 0 or b > M or a > M:
            continue
        dd(sg(a), p, sg(b), q)
    # 4. floor quotient == 2^127-1 with non-zero remainder (upward modes must signal)
    for k in range(1, 19):
        for j in range(1, min(k, 3) + 1):
            for beta in range(2, 10):
                need = (-beta * M) % P10[j]
                if 0 < need < beta:
                    a = (beta * M + need) // P10[j]
                    b = beta * P10[k - j]
                    # k = 18 + q - p
                    for q in range(0, 19):
                        p = 18 + q - k
                        if 0 <= p <= 18:
                            dd(a, p, b, q)
                            dd(-a, p, b, q)
                            dd(a, p, -b, q)
                            break
    # 5. quotients around +-M
    for _ in range(80):
        q = rng.randrange(0, 19)
        p = rng.randrange(q, 19)
        k = 18 + q - p
        b = rng.choice((3, 7, 9, 11, 13, P10[rng.randrange(1, 10)] + 1, rng.getrandbits(40) | 1))
        a = (M * b) // P10[k] + rng.randrange(-2, 3)
        dd(sg(a), p, sg(b), q)
    # 6. few-digit quotients (normalisation), divisor one, zero operands
    for _ in range(120):
        a = rng.randrange(1, 10 ** rng.randrange(1, 12))
        b = (2 ** rng.randrange(0, 12)) * (5 ** rng.randrange(0, 8))
        dd(sg(a), rng.randrange(0, 19), sg(b), rng.randrange(0, 19))
    for s in range(19):
        x = rng.randrange(-M, M + 1)
        t = rng.randrange(0, 19)
        dd(x, t, P10[s], s)
        dd(x, t, -P10[s], s)
        for w in G.trunc_twins(rng, rng.choice((P10[s], -P10[s], 0)))[::2]:
            # agrees with one / zero in its low 32 / 64 / 96 bits only
            xs = rng.choice((3, -7, rng.randrange(-10 ** 6, 10 ** 6) or 1))
            dd(xs, t, w, s)
            dd(w, s, xs, t)
        dd(0, s, x, t)
        dd(x, t, 0, s)
        dd(0, s, 0, t)
    # 6a'. identical operands (x / x; the driver also runs `&x / &x` with both references to one object)
    for s in range(19):
        for c in (0, 1, -1, 5, P10[s], M, -M, rng.randrange(-M, M), G.small_coeff(rng, 60)):
            out.append("%s * %s %s" % (rng.choice(("div", "cdiv")), G.fD(c, s), G.fD(c, s)))
    # 6b. operands at the widths of the primitive types, divisors +-1, +-2, 3, 10 (narrow-type fast paths)
    for c in G.type_boundary_coeffs():
        for s in (0, 1, 9, 17, 18):
            for b, q in ((1, 0), (-1, 0), (2, 0), (-2, 0), (3, 0), (10, 1), (-10, 1), (-P10[q2 := rng.randrange(0, 19)], q2)):
                dd(c, s, b, q)
                if rng.random() < 0.3:
                    dd(b, q, c, s)
            out.append("%s * %s i64:-1" % (rng.choice(("div", "cdiv")), G.fD(c, s)))
            out.append("%s * %s u8:2" % (rng.choice(("div", "cdiv")), G.fD(c, s)))
    # 6c. dividends at floor(T / 10^k) +- 2 for every primitive-type maximum T, scaled by exactly 10^k (k = 18 + q - p)
    for v, k in G.type_scaled_thresholds():
        for q in range(19):
            p = 18 + q - k
            if 0 <= p <= 18 and rng.random() < 0.5:
                dd(v, p, rng.choice((1, -1, 3, 7, rng.randrange(1, 10 ** 9), rng.randrange(1, M))), q)
    # 6d. Decimals at the ends of an integer type's range against that type's -1 / 1 / 2 / ends (T::MIN / -1 natively)
    for dt, it in C.native_width_cases(rng):
        out.append("%s * %s %s" % (rng.choice(("div", "cdiv")), dt, it))
        out.append("%s * %s %s" % (rng.choice(("div", "cdiv")), it, dt))
    # 7. integer operands
    for ty in OP_INT_TYPES:
        lo, hi = INT_TYPES[ty]
        for v in (lo, hi, 0, 1, 2, 3, 7, -1 if lo < 0 else 10):
            for s in (0, 1, 9, 18):
                for c in (0, 1, M, -M, P10[s], 3 * P10[s], rng.randrange(-M, M)):
                    if abs(c) > M:
                        continue
                    op = rng.choice(("div", "cdiv"))
                    out.append("%s * %s %s" % (op, G.fD(c, s), G.fI(ty, v)))
                    out.append("%s * %s %s" % (op, G.fI(ty, v), G.fD(c, s)))
    return out


_CON = None


def gen(rng, tier, shard, batch):
    global _CON
    reqs = []
    mine = []
    if batch == 0:
        if _CON is None:
            _CON = constructed(random.Random(20260103))
        mine = _CON[shard::E.NCPU]
    for mode in MODES:
        reqs.append("mode " + mode)
        reqs += mine
        # the rare corners of the multi-word division, constructed algebraically (vf/knuth.py)
        reqs += K.api_corner_requests(rng, 4 if tier == "quick" else 10, G.fD)
        reqs += K.hi_eq_divisor_requests(rng, 4 if tier == "quick" else 10, G.fD)
        reqs += [r for r in K.est_gt_b_requests(rng, 3 if tier == "quick" else 8, G.fD)[0] if r.split()[0] in ("div", "cdiv")]
        # scaled dividend whose top 64-bit word is a multiple of the (64-bit) divisor and whose next word is below it
        for op, l, r, n in K.api_small_divisor_top_word(rng, 4 if tier == "quick" else 10, G.fD, 18):
            if op == "divr":
                reqs.append("%s %s %s %s" % (rng.choice(("div", "cdiv")), rng.choice(("vv", "*", "rr")), l, r))
        if batch == 0:
            for a, p, b, q in C.small_grid(tier, shard, E.NCPU):
                reqs.append("div vv %s %s" % (G.fD(a, p), G.fD(b, q)))
        for _ in range(N_RANDOM[tier]):
            op = rng.choice(("div", "div", "cdiv"))
            k = rng.random()
            if k < 0.6:
                a, p = G.dec(rng)
                b, q = G.dec(rng)
                if rng.random() < 0.3:
                    a = G.small_coeff(rng, 70)
                if rng.random() < 0.3:
                    b = G.small_coeff(rng, 70)
                ltok, rtok = G.fD(a, p), G.fD(b, q)
            else:
                ltok, rtok = C.shape_operands(rng, rng.choice(("Di", "iD")))
            form = C.pick_form(rng, ltok[0] == "D", op == "div")
            reqs.append("%s %s %s %s" % (op, form, ltok, rtok))
    return reqs


main = C.standard_main(sys.modules[__name__])
