"""C05 - round / checked_round implement all eight rounding modes exactly."""

import random
import sys

from .. import engine as E
from .. import gen as G
from ..oracle import M, P10, MODES, fits, round_ratio, sign, value_eq
from . import arith as A
from . import common as C

ID = "C05"
TITLE = "round / checked_round implement all eight rounding modes exactly"
RULE = ("requests `round|cround D<c>:<s> <n>` (n over all of i8) under each of the 8 thread rounding modes and "
        "`krnd <x> <y> <mode>` = fpdec_core::i128_div_rounded with an explicit mode; the kernel is enumerated "
        "completely over quotient -60..60 x divisor in +-{2,3,4,5,7,8,10,20,100} x every remainder x 8 modes "
        "(every (sign, quotient mod 10, remainder <,=,> half, exact) class); constructed: a = Q*10^s + r with "
        "r in {0,1,half-1,half,half+1,10^s-1}, last digit of Q 0..9, both signs; negative n with results within "
        "2 of 2^127; n < scale-38 with non-zero values under directed modes. Non-trivial = digits are cut off "
        "(n < scale) and the cut-off part is non-zero")
BUILDS = {"quick": [("dev", ()), ("release", ())],
          "thorough": [("dev", ()), ("release", ()), ("release", ("packed",)), ("o0-nochk", ())]}
REQUIRED_SITES = {"round.noop": 100, "round.tiny": 100, "round.shift_back": 100, "round_quot.tie": 500}
BUDGET = {"quick": 25, "thorough": 300}
N_RANDOM = {"quick": 1200, "thorough": 5000}
KDIV = (2, 3, 4, 5, 7, 8, 10, 20, 100)


def expected_round(a, p, n, mode):
    if n >= p:
        return ("exact", a, p)
    sh = p - n
    if sh > 60:
        k = round_ratio(sign(a), 10, mode)   # 0 < |a / 10^sh| < 1/2
    else:
        k = round_ratio(a, P10[sh], mode)
    if k == 0:
        return ("value", 0, 0, 18)
    # the statement fixes the value (the multiple of 10^-n), not the number of fractional digits it is
    # returned with: compare by value, at most max(n, 0) digits
    if n >= 0:
        return ("value", k, n, n)
    if -n > 40:
        return ("signal",)
    c = k * P10[-n]
    f = fits(c)
    if f == "fit":
        return ("value", c, 0, 0)
    return ("dcany",) if f == "edge" else ("signal",)


def check(toks, resp, mode, build):
    op = toks[0]
    if op == "krnd":
        x, y, m = int(toks[1]), int(toks[2]), toks[3]
        want = round_ratio(x, y, m)
        ok = resp.kind == "I" and int(resp.f[0]) == want
        return ("ok" if ok else "viol"), "krnd." + m, x % y != 0, "I %d" % want
    a, p = E.pD(toks[1])
    n = int(toks[2])
    spec = expected_round(a, p, n, mode)
    checked = op == "cround"
    ok = A.matches(spec, resp, checked)
    verdict = "ok" if ok else "viol"
    if ok and spec[0] == "dcany":
        verdict = "dc"
    nontriv = n < p and a != 0 and (p - n > 60 or a % P10[p - n] != 0)
    return verdict, "%s.%s" % (op, spec[0]), nontriv, A.spec_text(spec, checked)


def kernel_exhaustive():
    out = []
    for mode in MODES:
        for v in KDIV:
            for q in range(-60, 61):
                for r in range(v):
                    x = q * v + r
                    out.append("krnd %d %d %s" % (x, v, mode))
                    out.append("krnd %d %d %s" % (-x, -v, mode))
    return out


def constructed(rng):
    out = []
    for s in range(1, 19):
        half = 5 * P10[s - 1]
        for last in range(10):
            for r in (0, 1, half - 1, half, half + 1, P10[s] - 1):
                if r < 0 or r >= P10[s]:
                    continue
                Q = rng.getrandbits(rng.randrange(0, 60)) * 10 + last
                a = Q * P10[s] + r
                if a > M:
                    continue
                p = rng.randrange(s, 19)
                for sg in (1, -1):
                    op = rng.choice(("round", "cround"))
                    out.append("%s %s %d" % (op, G.fD(sg * a, p), p - s))
    # multiples of 10^n beyond 2^64 / 2^128 reduced modulo the word size
    for c, n_ in G.wrapped_multiples():
        p = rng.randrange(n_, 19)
        for sgn in (1, -1):
            out.append("%s %s %d" % (rng.choice(("round", "cround")), G.fD(sgn * c, p), p - n_))
    # decision boundary of division-free divisibility tests (x * inverse(5^n) mod 2^w against floor((2^w - 1) / 5^n))
    for c, n_ in G.modinv_boundary_all(rng):
        p = rng.randrange(n_, 19)
        for sgn in (1, -1):
            out.append("%s %s %d" % (rng.choice(("round", "cround")), G.fD(sgn * c, p), p - n_))
    # kept digits made of all-ones / empty / single-bit 32-bit limbs, inexact, every mode (requests are repeated per mode)
    sg_ = G.sublimb_grid()
    for q_ in sg_:
        sh = rng.randrange(1, 25)
        t_ = 10 ** sh
        if q_ > M // t_:
            sh = rng.randrange(1, max(2, len(str(M // q_)) - 1)) if q_ < M // 10 else 0
            t_ = 10 ** sh
        if sh == 0 or q_ > M // t_:
            continue
        c = q_ * t_ + rng.choice((1, t_ // 2, t_ - 1, rng.randrange(1, t_)))
        if c > M:
            continue
        p = rng.randrange(0, 19)
        out.append("%s %s %d" % (rng.choice(("round", "cround")), G.fD(c * rng.choice((1, -1)), p), p - sh))
    # kept digits with binary-structured limbs (limb sums that carry), every residue mod 5
    for sh in range(1, 25):
        for c in G.limb_quotient_values(rng, sh, 6):
            p = rng.randrange(0, 19)
            for sgn in (1, -1):
                out.append("%s %s %d" % (rng.choice(("round", "cround")), G.fD(sgn * c, p), p - sh))
    # seams of the split at s digits for every s up to 38 (quotient at floor(T/10^s) +- 2, remainder 0 / 1 / all nines / half)
    for sh in range(1, 39):
        for c in G.split_values(rng, sh, 3):
            pmin = max(0, sh - 38)
            p = rng.randrange(0, 19)
            n = p - sh
            if n < -128:
                continue
            for sgn in (1, -1):
                out.append("%s %s %d" % (rng.choice(("round", "cround")), G.fD(sgn * c, p), n))
    # negative n, result near +-2^127
    for k in range(1, 39):
        top = M // P10[k]
        for d in (-1, 0, 1, 2):
            for frac in (0, 1, 5 * P10[k - 1], P10[k] - 1):
                a = (top + d) * P10[k] + frac
                for p in (0, 3, 18):
                    cc = a * P10[p] if rng.random() < 0.5 else a
                    if abs(cc) > M:
                        cc = a
                        p = 0
                    if abs(cc) > M:
                        continue
                    for sg in (1, -1):
                        out.append("%s %s %d" % (rng.choice(("round", "cround")), G.fD(sg * cc, p), -k if cc == a and p == 0 else -k))
    # tiny values: n < p - 38
    for p in range(0, 19):
        for n in (p - 39, p - 40, -38, -39, -40, -100, -128, p - 38, p - 37):
            if n < -128:
                continue
            for a in (1, -1, 5, -5, M, -M, 0, 4999, -5001, 10 ** 20):
                out.append("%s %s %d" % (rng.choice(("round", "cround")), G.fD(a, p), n))
    return out


_CON = None
_KER = None


def gen(rng, tier, shard, batch):
    global _CON, _KER
    reqs = []
    mine = []
    if batch == 0:
        if _CON is None:
            _CON = constructed(random.Random(20260105))
            _KER = kernel_exhaustive()
        mine = _CON[shard::E.NCPU]
        reqs += _KER[shard::E.NCPU]
    for mode in MODES:
        reqs.append("mode " + mode)
        reqs += mine
        for _ in range(N_RANDOM[tier]):
            a, p = G.dec(rng)
            k = rng.random()
            if k < 0.5:
                n = rng.randrange(-2, 19)
            elif k < 0.8:
                n = rng.randrange(-45, 2)
            else:
                n = rng.randrange(-128, 128)
            reqs.append("%s %s %d" % (rng.choice(("round", "cround")), G.fD(a, p), n))
        for _ in range(N_RANDOM[tier] // 4):
            y = rng.choice((P10[rng.randrange(1, 39)], G.coeff(rng) or 3, rng.getrandbits(64) + 2))
            if rng.random() < 0.4:
                q = G.small_coeff(rng, 60)
                x = q * y + rng.choice((0, 1, abs(y) // 2, abs(y) // 2 + 1, abs(y) - 1))
                if abs(x) > M:
                    x = G.coeff(rng)
            else:
                x = G.coeff(rng)
            reqs.append("krnd %d %d %s" % (x, y, rng.choice(MODES)))
    return reqs


def main(tier, seed):
    code, ev = E.run_property(sys.modules[__name__], tier, seed)
    return code


ASSUMPTIONS = ["exhaustive sub-domain: rounding kernel classes (quotient -60..60 x 9 divisors x every remainder x 8 modes x both divisor signs)"]
