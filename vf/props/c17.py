"""C17 - all operand forms of an operator compute the same function."""

import random
import sys

from .. import engine as E
from .. import findings as F
from .. import gen as G
from ..oracle import M, P10, MODES, OP_INT_TYPES, INT_TYPES, I128_MIN, value_eq
from . import arith as A
from . import common as C

ID = "C17"
LOCALITY = False            # the judge is sequential (reference line + integer line): no inserted relatives
COLD_START = False          # ... and no sampled request lists
ENV_MONITOR = False
TITLE = "All operand forms of an operator compute the same function"
RULE = ("consistency monitor (no value oracle): for every operation (+ - * / % checked_* div_rounded mul_rounded quantize, "
        "== < and friends) the driver executes EVERY form (vv rv vr rr, compound assignment av ar) of one impl on the same "
        "operands (`*` request); a group is a reference line with Decimal::from(i) in the integer's position followed by "
        "the line with the primitive integer i of each of the 9 types in that position (left and right, and int/int for "
        "div_rounded/quantize); the monitor demands identical outcome class (value / None / panic) and value within each "
        "line and between the lines of a group (for + and - also identical fractional digit count), with the exception "
        "the statement grants for multiplication by an operand equal to one. Every one of the 1107 (op, lhs type, rhs "
        "type, form) call sites is named explicitly in the driver. Non-trivial = group with an integer operand")
BUILDS = {"quick": [("dev", ()), ("release", ())],
          "thorough": [("dev", ()), ("release", ()), ("release", ("packed",)), ("o0-nochk", ())]}
REQUIRED_SITES = {}
BUDGET = {"quick": 25, "thorough": 300}
N_GROUPS = {"quick": 250, "thorough": 800}     # per mode and shard
SHARDS = E.NCPU

OPS_ARITH = ("add", "sub", "mul", "div", "rem", "cadd", "csub", "cmul", "cdiv", "crem")
N_FORMS = {"DD": {"op": 6, "chk": 4, "divr": 4, "mulr": 4, "quant": 4, "cmpall": 1}}

# state of the sequential judge: the reference line of the current group
_ref = {"key": None, "res": None, "build": None}


def outcome(res):
    """Normalised outcome of one form: ('V', c, s) | ('N',) | ('P',) | ('C', text)."""
    if res.kind == "V":
        return ("V", int(res.f[0]), int(res.f[1]))
    if res.kind == "N":
        return ("N",)
    if res.kind == "P":
        return ("P",)
    return ("C", res.raw)


def same(o1, o2, strict_scale):
    if o1[0] != o2[0]:
        return False
    if o1[0] == "V":
        if strict_scale:
            return o1[1:] == o2[1:]
        return value_eq(o1[1], o1[2], o2[1], o2[2])
    if o1[0] == "C":
        return o1[1] == o2[1]
    return True


def check(toks, resp, mode, build):
    op, form = toks[0], toks[1]
    l = C.operand(toks[2])
    r = C.operand(toks[3])
    n = int(toks[4]) if len(toks) > 4 else 0
    strict = op in ("add", "sub", "cadd", "csub")
    forms = C.results(form, resp)
    outs = [outcome(x) for _, x in forms]
    shape = A.shape_of(l, r)
    label = "%s.%s.%s" % (op, l[2] or "D", r[2] or "D")
    # 1. all forms of this impl agree (exactly: same impl, must be bit-identical)
    for o in outs[1:]:
        if o != outs[0]:
            return "viol", label, True, "all forms identical to %s=%r" % (forms[0][0], outs[0])
    key = (op, l[0], l[1], r[0], r[1], n, mode)
    if shape == "DD":
        _ref["key"], _ref["res"], _ref["build"] = key, outs[0], build
        return "ok", label, False, "reference line"
    # 2. int line: compare with the preceding reference line (same values, Decimal::from(i) in place)
    if _ref["key"] != key or _ref["build"] != build:
        raise RuntimeError("C17 group without reference line: %r" % (toks,))
    ref = _ref["res"]
    mine = outs[0]
    exp = "same as Decimal::from(i) form: %r" % (ref,)
    if (l[2] == "i128" and l[0] == I128_MIN) or (r[2] == "i128" and r[0] == I128_MIN):
        # Decimal::from(i128::MIN) is outside Decimal::MIN..=MAX: not in the quantifier
        return "dc", label + ".i128min", True, exp
    if same(ref, mine, strict):
        return "ok", label, True, exp
    # the exception granted by the statement: Decimal/Decimal multiplication short-cuts an operand equal to one
    if op in ("mul", "cmul") and ref[0] == "V" and mine[0] in ("P", "N") and (A.is_one(l[0], l[1]) or A.is_one(r[0], r[1])):
        return "dc", label + ".mul_one_exception", True, exp
    # known finding: int/int div_rounded does not reject n > 18
    if op == "divr" and shape == "ii" and n > 18 and ref[0] == "P" and F.is_open("KF-C04-int-int-nfrac"):
        spec = A.expected_divr(l, r, n, mode)
        if spec[0] == "kf" and A.matches(spec[2], forms[0][1], False):
            return "kf:KF-C04-int-int-nfrac", label, True, exp
    return "viol", label, True, exp


def group(rng, op, ty, pos, n):
    """Reference line + int line for one operand tuple."""
    v = G.int_of(rng, ty)
    d = G.dec(rng)
    k = rng.random()
    if k < 0.25:
        d = (G.small_coeff(rng, 40), G.scale(rng))
    elif k < 0.4:
        # near the overflow boundary of the op
        s = G.scale(rng)
        d = (G.near_limit(rng) // (P10[s] if rng.random() < 0.5 else 1), s)
    dtok = G.fD(*d)
    itok = G.fI(ty, v)
    ftok = G.fD(v, 0)
    tail = "" if n is None else " %d" % n
    if pos == "r":
        return ["%s * %s %s%s" % (op, dtok, ftok, tail), "%s * %s %s%s" % (op, dtok, itok, tail)]
    if pos == "l":
        return ["%s * %s %s%s" % (op, ftok, dtok, tail), "%s * %s %s%s" % (op, itok, dtok, tail)]
    w = G.int_of(rng, ty)
    if rng.random() < 0.3:
        w = rng.choice((1, 2, 3, 7, 10))
        lo, hi = INT_TYPES[ty]
        w = min(max(w, lo), hi)
    return ["%s * %s %s%s" % (op, ftok, G.fD(w, 0), tail), "%s * %s %s%s" % (op, itok, G.fI(ty, w), tail)]


def gen(rng, tier, shard, batch):
    reqs = []
    for mode in MODES:
        reqs.append("mode " + mode)
        # every impl at least once per mode and shard
        for ty in OP_INT_TYPES:
            for op in OPS_ARITH + ("cmpall",):
                for pos in ("l", "r"):
                    reqs += group(rng, op, ty, pos, None)
            for op in ("divr", "quant"):
                for pos in ("l", "r", "b"):
                    n = (rng.randrange(0, 19) if rng.random() < 0.9 else rng.randrange(19, 256)) if op == "divr" else None
                    reqs += group(rng, op, ty, pos, n)
        for _ in range(N_GROUPS[tier]):
            ty = rng.choice(OP_INT_TYPES)
            k = rng.random()
            if k < 0.7:
                op = rng.choice(OPS_ARITH + ("cmpall",))
                reqs += group(rng, op, ty, rng.choice("lr"), None)
            elif k < 0.9:
                n = rng.randrange(0, 19) if rng.random() < 0.9 else rng.randrange(19, 256)
                reqs += group(rng, "divr", ty, rng.choice("lrb"), n)
            else:
                reqs += group(rng, "quant", ty, rng.choice("lrb"), None)
        # + / - groups whose exact result is +-2^127 or +-(2^127-1) (the asymmetric ends of i128), integer in either
        # position, Decimal with and without fractional digits
        for _ in range(10):
            ty = rng.choice(OP_INT_TYPES)
            v = G.int_of(rng, ty)
            sc = rng.choice((0, 1, 2, 9, 18, rng.randrange(0, 19)))
            w = abs(v) * P10[sc]
            if w > M:
                continue
            for c in (M - w, -(M + 1) + w, (M + 1) - w, -M + w, M - w + 1, -(M + 1) + w - 1, M + 1 - w - 1):
                if abs(c) > M:
                    continue
                op = rng.choice(("add", "sub", "cadd", "csub"))
                dtok, itok, ftok = G.fD(c, sc), G.fI(ty, v), G.fD(v, 0)
                reqs += ["%s * %s %s" % (op, dtok, ftok), "%s * %s %s" % (op, dtok, itok),
                         "%s * %s %s" % (op, ftok, dtok), "%s * %s %s" % (op, itok, dtok)]
        # integer operands at floor(T / 10^k) +- 2 (T = maxima of the primitive types) where k is exactly the number of
        # digits the operation scales the integer by: n + q for int.div_rounded(Decimal @ q, n), the Decimal's scale
        # for + - % < ==, 18 + q for /
        for v, k in G.type_scaled_thresholds(36):
            tys = [t for t in OP_INT_TYPES if INT_TYPES[t][0] <= v <= INT_TYPES[t][1]]
            if not tys or rng.random() < 0.5:
                continue
            ty = min(tys, key=lambda t: INT_TYPES[t][1] - INT_TYPES[t][0]) if rng.random() < 0.7 else rng.choice(tys)
            itok, ftok = G.fI(ty, v), G.fD(v, 0)
            # div_rounded: n + q == k
            nq = [(n_, k - n_) for n_ in range(19) if 0 <= k - n_ <= 18]
            if nq:
                n_, q_ = rng.choice(nq)
                dtok = G.fD(rng.choice((1, -1)) * (rng.getrandbits(rng.randrange(1, 100)) + 1), q_)
                reqs += ["divr * %s %s %d" % (ftok, dtok, n_), "divr * %s %s %d" % (itok, dtok, n_)]
            if k <= 18:
                dtok = G.fD(rng.choice((1, -1)) * (rng.getrandbits(rng.randrange(1, 126)) + 1), k)
                op = rng.choice(("add", "sub", "rem", "cmpall", "csub", "crem", "quant"))
                reqs += ["%s * %s %s" % (op, ftok, dtok), "%s * %s %s" % (op, itok, dtok),
                         "%s * %s %s" % (op, dtok, ftok), "%s * %s %s" % (op, dtok, itok)]
            if 18 <= k <= 36:
                dtok = G.fD(rng.choice((1, -1)) * (rng.getrandbits(rng.randrange(1, 100)) + 1), k - 18)
                op = rng.choice(("div", "cdiv"))
                reqs += ["%s * %s %s" % (op, ftok, dtok), "%s * %s %s" % (op, itok, dtok)]
        # the Decimal equal to one / minus one / zero / ten in EVERY representation (10^n @ n, ...) against integers at the
        # ends of their type and beyond i128::MAX / 10^18, both positions, every operation ("operand is one" short-cuts
        # written per impl family)
        for n_ in range(0, 19):
            if (n_ + len(reqs)) % 3:
                continue
            for unit in (P10[n_], -P10[n_], 0, 10 * P10[n_] if n_ < 18 else P10[n_]):
                ty = rng.choice(OP_INT_TYPES)
                lo, hi = INT_TYPES[ty]
                v = rng.choice((lo, hi, hi - 1, lo + 1, G.int_of(rng, ty)))
                if ty == "i128" and rng.random() < 0.7:
                    v = rng.choice((1, -1)) * rng.randrange(M // P10[18] + 1, M)
                op = rng.choice(OPS_ARITH + ("cmpall", "divr", "quant"))
                tail = " %d" % rng.randrange(0, 19) if op == "divr" else ""
                dtok, itok, ftok = G.fD(unit, n_), G.fI(ty, v), G.fD(v, 0)
                if abs(v) > M:
                    continue
                reqs += ["%s * %s %s%s" % (op, ftok, dtok, tail), "%s * %s %s%s" % (op, itok, dtok, tail),
                         "%s * %s %s%s" % (op, dtok, ftok, tail), "%s * %s %s%s" % (op, dtok, itok, tail)]
        # comparison groups at the alignment threshold: i = +-(floor(M / 10^n) + d), Decimal = i * 10^n (+-1) @ n
        for _ in range(8):
            n_ = rng.randrange(1, 19)
            for d_ in (-1, 0, 1):
                i_ = (M // P10[n_] + d_) * rng.choice((1, -1))
                for e_ in (0, 1, -1):
                    c = i_ * P10[n_] + e_
                    if abs(c) > M:
                        c = rng.choice((M, -M))
                    reqs += ["cmpall * %s %s" % (G.fD(c, n_), G.fD(i_, 0)), "cmpall * %s i128:%d" % (G.fD(c, n_), i_),
                             "cmpall * %s %s" % (G.fD(i_, 0), G.fD(c, n_)), "cmpall * i128:%d %s" % (i_, G.fD(c, n_))]
        # comparison groups with i128 values whose scaling wraps onto the Decimal's coefficient
        for _ in range(6):
            k = rng.randrange(1, 19)
            a = rng.randrange(M // P10[k] + 1, min(M, 3 * (M // P10[k] + 1)) + 1) * rng.choice((1, -1))
            w = G.wrap_twin(a, k)
            if w is None:
                continue
            reqs += ["cmpall * %s %s" % (G.fD(w, k), G.fD(a, 0)), "cmpall * %s i128:%d" % (G.fD(w, k), a),
                     "cmpall * %s %s" % (G.fD(a, 0), G.fD(w, k)), "cmpall * i128:%d %s" % (a, G.fD(w, k))]
        # exact integral quotients beyond 1.7e20 (the 18-digit result would not fit)
        for _ in range(6):
            ty = rng.choice(OP_INT_TYPES)
            lo, hi = INT_TYPES[ty]
            v = rng.choice([x for x in (2, 3, 5, 10, 100, -2, -10, min(hi, 10 ** 9)) if lo <= x <= hi])
            t = rng.randrange(10 ** 21, M // abs(v))
            for op in ("div", "cdiv"):
                reqs += ["%s * %s %s" % (op, G.fD(t * v, 0), G.fD(v, 0)), "%s * %s %s" % (op, G.fD(t * v, 0), G.fI(ty, v))]
        # Decimal/Decimal only ops: all forms must agree
        for _ in range(N_GROUPS[tier] // 5):
            a, b = G.dec(rng), G.dec(rng)
            reqs.append("mulr * %s %s %d" % (G.fD(*a), G.fD(*b), rng.randrange(0, 20)))
            op = rng.choice(OPS_ARITH + ("divr", "quant"))
            reqs.append("%s * %s %s%s" % (op, G.fD(*a), G.fD(*b), " %d" % rng.randrange(0, 19) if op == "divr" else ""))
    return reqs


def main(tier, seed):
    mod = sys.modules[__name__]
    code, ev = E.run_property(mod, tier, seed)
    # number of distinct impl call sites exercised, from the labels
    impls = 0
    for lab, cnt in ev["coverage"]["class_histogram"].items():
        parts = lab.split(".")
        if len(parts) != 3 or cnt == 0:
            continue
        op, lt, rt = parts
        if op in ("add", "sub", "mul", "div", "rem"):
            impls += 6 if lt == "D" else 4
        elif op == "cmpall":
            impls += 1
        else:
            impls += 4
    ev["coverage"]["impl_call_sites_exercised"] = impls
    ev["coverage"]["impl_call_sites_declared_in_driver"] = 1107
    if code == 0 and impls < 1107:
        print("INCONCLUSIVE property=C17 only %d of 1107 impl call sites exercised" % impls)
        code = 3
        ev["verdict"] = "inconclusive"
    E.write_evidence(ID, ev)
    return code
