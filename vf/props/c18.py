"""C18 - the Dec! macro and runtime parsing agree on every literal (monitor over generated programs)."""

import os
import random
import re
import shutil
import subprocess
import sys
import time

from .. import build as B
from .. import engine as E
from ..oracle import M, P10, parse_literal

ID = "C18"
TITLE = "The Dec! macro and runtime parsing agree on every literal"
RULE = ("generated programs: for Rust-lexer-valid unsuffixed literals (digits with optional underscores, optional "
        "fraction incl. `1.`, optional exponent, radix literals; sign as `-x`, `- x`, `+x`, `+ x`; digits up to 40+ "
        "places, exponents -45..45 and huge, the 18-digit and 10^38 / 2^127 limits +-1, the 2^128 wrap zone, zero "
        "literals with large exponents) the runner first records Decimal::from_str(lit) with the driver, then writes "
        "an `accept` program (static table of Dec!(lit) for literals from_str accepted; must compile; its output must "
        "equal the from_str results in coefficient and fractional digit count) and a `reject` program (one "
        "`const _: Decimal = Dec!(lit);` per line for literals from_str rejected; rustc must report a proc-macro "
        "error on every line), both compiled with the real rustc and the proc-macro from /repo. Non-trivial = literal "
        "with fraction, exponent, sign or >= 19 digits")
LEVEL_TEXT = None
BUDGET = {"quick": 60, "thorough": 600}
N_LITS = {"quick": 700, "thorough": 12000}
CRATE = os.path.join(B.WORK, "c18-crate")
TARGET = os.path.join(B.BUILD, "c18")


def digits(rng, n, nz=False):
    if n <= 0:
        return ""
    s = "".join(rng.choice("0123456789") for _ in range(n))
    if nz and s[0] == "0":
        s = rng.choice("123456789") + s[1:]
    return s


def rust_literal(rng):
    """A Rust-lexer-valid unsuffixed numeric literal (without sign)."""
    k = rng.random()
    if k < 0.03:
        return rng.choice(("0x1f", "0o17", "0b101", "0xff", "0b0", "1_000", "1_0.5", "1.5_0", "1e1_0", "12_", "0x0"))
    ni = rng.choice((1, 1, 2, 3, 8, 9, 17, 19, 20, 30, 38, 39, 40, rng.randrange(1, 42)))
    ip = digits(rng, ni, nz=rng.random() < 0.8)
    if rng.random() < 0.1:
        ip = "0" * rng.randrange(1, 4) + ip
    s = ip
    has_frac = rng.random() < 0.6
    nf = 0
    if has_frac:
        nf = rng.choice((0, 1, 2, 5, 17, 18, 19, 20, 30, 38, 40, rng.randrange(0, 42)))
        s += "." + digits(rng, nf)
    if rng.random() < 0.45 and not (has_frac and nf == 0):
        e = rng.choice((rng.randrange(-45, 46), rng.randrange(-20, 21), nf - 18, nf - 19, nf - 17, 38, 39, 37,
                        38 - ni, 39 - ni, 40 - ni, 99, -99, 256, 257, 16777216, 99999999999))
        es = str(abs(e))
        if rng.random() < 0.15:
            es = es.rjust(rng.randrange(2, 6), "0")
        s += rng.choice("eE") + ("-" if e < 0 else rng.choice(("", "+"))) + es
    return s


def fixed_literals():
    out = ["0", "1", "1.", "0.", "0.0", "0.00", "0e5", "0e-5", "0.0E-3", "0e39", "0.0e99", "0e-18", "0e-19", "1e38", "1E+38",
           "1e39", "0.1e39", "0.01e40", "10e37", "1e-18", "1e-19", "12.5E-17", "0.000000000000000001",
           "0.0000000000000000001", "3.141592653589793238", "3.1415926535897932384", "0.1234567890123456789e1",
           "170141183460469231731687303715884105727", "170141183460469231731687303715884105728",
           "17014118346046923173168730371588410572.7", "17014118346046923173168730371588410572.8",
           "100000000000000000000000000000000000000", "99999999999999999999999999999999999999", "1e16777216", "1e256",
           "440282366920938463463374607431768211456", "340282366920938463463374607431768211456",
           "680564733841876926926749214863536422912", "4402823669209384634633746074317682114.56",
           "0.0000000000000000000000000000000000000001e30", "0.00000000000000000000000000000000000000001e41",
           "7.0000000000000000001E19", "1e005", "1e+005", "12.5e-003", "007", "00.50", "1_000", "0x1f", "123456789012345678.90123"]
    for k in range(30, 41):
        out.append("1" + "0" * k)
        out.append("9" * k)
        out.append("0." + "0" * (k - 1) + "1e%d" % (k - 10))
    # coefficient * 10^exponent exactly at the i128 boundary: floor(M / 10^k) + {-1, 0, 1, 2} with exponent k
    for k in range(1, 39):
        for d in (-1, 0, 1, 2):
            c = M // P10[k] + d
            if c > 0:
                out.append("%de%d" % (c, k))
                cs = str(c)
                if len(cs) > 1 and k < 38:
                    out.append("%s.%se%d" % (cs[0], cs[1:], k + len(cs) - 1))
    for d in range(-2, 3):
        out.append(str((1 << 127) + d))
        out.append(str((1 << 128) + 10 ** 38 + d))
        out.append(str(10 ** 38 + d))
    return out


def literals(rng, n):
    lits = []
    base = fixed_literals()
    for b in base:
        lits.append(("", b))
        lits.append((rng.choice(("-", "- ", "+", "+ ")), b))
        lits.append(("-", b))
    while len(lits) < n:
        lits.append((rng.choice(("", "", "-", "- ", "+", "+ ")), rust_literal(rng)))
    # (text inside Dec!(..), text handed to from_str)
    seen = set()
    out = []
    for sign, lit in lits:
        key = (sign, lit)
        if key in seen:
            continue
        seen.add(key)
        out.append((sign + lit, sign.strip() + lit))
    return out


def cargo(args, timeout):
    env = dict(os.environ)
    env["CARGO_NET_OFFLINE"] = "true"
    env["CARGO_TARGET_DIR"] = TARGET
    env.pop("RUSTFLAGS", None)
    return subprocess.run(["cargo"] + args + ["--offline", "--manifest-path", os.path.join(CRATE, "Cargo.toml")],
                          env=env, stdout=subprocess.PIPE, stderr=subprocess.PIPE, text=True, timeout=timeout)


def write_crate():
    os.makedirs(os.path.join(CRATE, "src", "bin"), exist_ok=True)
    open(os.path.join(CRATE, "Cargo.toml"), "w").write(
        '[package]\nname = "c18gen"\nversion = "0.0.0"\nedition = "2021"\npublish = false\n\n[workspace]\n\n'
        '[dependencies]\nfpdec = { path = "%s" }\n' % B.REPO)
    lock = os.path.join(CRATE, "Cargo.lock")
    if not os.path.exists(lock):
        shutil.copy(os.path.join(B.REPO, "Cargo.lock"), lock)


ACCEPT_HEAD = "use fpdec::{Dec, Decimal};\nstatic T: &[(&str, Decimal)] = &[\n"
ACCEPT_TAIL = ("];\nfn main() {\n    for (i, (_l, d)) in T.iter().enumerate() {\n"
               "        println!(\"{} {} {}\", i, d.coefficient(), d.n_frac_digits());\n    }\n}\n")
REJECT_HEAD = "#![allow(dead_code)]\nuse fpdec::{Dec, Decimal};\n"
ERR_LINE = re.compile(r"src/bin/(\w+)\.rs:(\d+):\d+: error(?:\[\w+\])?: (.*)")


def run_programs(lits, fs_results, budget_s):
    """Build and run the generated programs in the dev AND the release profile (the proc-macro itself is compiled
    with the profile's overflow-check setting)."""
    allv = []
    allstats = {}
    for release in (False, True):
        viol, stats = run_programs_profile(lits, fs_results, budget_s, release)
        if viol is None:
            return None, stats
        for v in viol:
            v["profile"] = "release" if release else "dev"
        allv += viol
        for k, val in stats.items():
            if isinstance(val, int):
                allstats[k] = (allstats.get(k, 0) + val) if k == "programs" else val
            else:
                allstats[k + ("_release" if release else "")] = val
    return allv, allstats


def run_programs_profile(lits, fs_results, budget_s, release):
    """lits: [(macro_text, fromstr_text)], fs_results: list of Resp. -> (violations, stats)"""
    write_crate()
    prof = ["--release"] if release else []
    acc = [i for i, r in enumerate(fs_results) if r.kind == "V"]
    rej = [i for i, r in enumerate(fs_results) if r.kind != "V"]
    viol = []
    stats = {"accept_literals": len(acc), "reject_literals": len(rej), "programs": 0}
    removed = set()
    for attempt in range(3):
        cur = [i for i in acc if i not in removed]
        with open(os.path.join(CRATE, "src", "bin", "accept.rs"), "w") as f:
            f.write(ACCEPT_HEAD)
            for i in cur:
                f.write("    (\"x\", Dec!(%s)),\n" % lits[i][0])
            f.write(ACCEPT_TAIL)
        p = cargo(["build", "--message-format=short", "--bin", "accept"] + prof, budget_s)
        stats["programs"] += 1
        if p.returncode == 0:
            break
        bad_lines = set()
        for m in ERR_LINE.finditer(p.stderr):
            if m.group(1) == "accept":
                bad_lines.add(int(m.group(2)))
        if not bad_lines:
            return None, {"error": "accept program failed to build without attributable errors: " + p.stderr[-800:]}
        for ln in sorted(bad_lines):
            idx = cur[ln - 3]          # two header lines, 1-based
            removed.add(idx)
            viol.append({"literal": lits[idx][0], "from_str": fs_results[idx].raw, "macro": "compile error",
                         "why": "Dec! fails to compile although from_str succeeds"})
    else:
        return None, {"error": "accept program still failing after removing offending literals"}
    exe = os.path.join(TARGET, "release" if release else "debug", "accept")
    p = subprocess.run([exe], stdout=subprocess.PIPE, stderr=subprocess.PIPE, text=True, timeout=120)
    if p.returncode != 0:
        return None, {"error": "accept program crashed: " + p.stderr[-500:]}
    cur = [i for i in acc if i not in removed]
    lines = p.stdout.strip().split("\n") if cur else []
    if len(lines) != len(cur):
        return None, {"error": "accept program printed %d lines for %d literals" % (len(lines), len(cur))}
    for line, idx in zip(lines, cur):
        _, c, s = line.split(" ")
        want = fs_results[idx].raw
        if "V %s %s" % (c, s) != want:
            viol.append({"literal": lits[idx][0], "from_str": want, "macro": "V %s %s" % (c, s),
                         "why": "Dec! constant differs from from_str"})
    # reject program
    with open(os.path.join(CRATE, "src", "bin", "reject.rs"), "w") as f:
        f.write(REJECT_HEAD)
        for i in rej:
            f.write("const _: Decimal = Dec!(%s);\n" % lits[i][0])
        f.write("fn main() {}\n")
    if rej:
        p = cargo(["build", "--message-format=short", "--bin", "reject"] + prof, budget_s)
        stats["programs"] += 1
        err_lines = {}
        other = []
        for m in ERR_LINE.finditer(p.stderr):
            if m.group(1) == "reject":
                err_lines.setdefault(int(m.group(2)), m.group(3))
                if "proc macro panicked" not in m.group(3) and "proc-macro" not in m.group(3):
                    other.append(m.group(0))
        stats["reject_errors_seen"] = len(err_lines)
        stats["other_diagnostics"] = other[:5]
        for k, idx in enumerate(rej):
            ln = k + 3
            if ln not in err_lines:
                viol.append({"literal": lits[idx][0], "from_str": fs_results[idx].raw, "macro": "compiles",
                             "why": "Dec! compiles although from_str fails"})
    return viol, stats


def from_str_results(lits):
    binary = B.build("release", ())
    wdir = B.workdir(ID)
    reqfile = os.path.join(wdir, "fs.req")
    outfile = os.path.join(wdir, "fs.out")
    open(reqfile, "w").write("\n".join("parse " + E.hexs(t) for _, t in lits) + "\n")
    E.run_probe(binary, reqfile, outfile)
    out = open(outfile).read().split("\n")
    if out and out[-1] == "":
        out.pop()
    return [E.Resp(l) for l in out]


def run(lits, tier, seed, t0):
    import fcntl
    os.makedirs(B.BUILD, exist_ok=True)
    with open(os.path.join(B.BUILD, ".lock-c18"), "w") as lk:
        fcntl.flock(lk, fcntl.LOCK_EX)      # the generated crate and its target dir are shared
        return _run(lits, tier, seed, t0)


def _run(lits, tier, seed, t0):
    fs = from_str_results(lits)
    if len(fs) != len(lits):
        print("INCONCLUSIVE property=C18 driver returned %d results for %d literals" % (len(fs), len(lits)))
        return 3, None
    # the recording of from_str itself is cross-checked against the grammar oracle (harness sanity, not the verdict)
    viol, stats = run_programs(lits, fs, BUDGET[tier] * 4)
    nontriv = set(t for t, _ in lits if any(ch in t for ch in ".eE+-") or len(t) >= 19)
    cov = {
        "evaluations": len(lits),
        "distinct_nontrivial": len(nontriv),
        "rule": RULE,
        "samples": [{"literal": lits[i][0], "from_str": fs[i].raw} for i in range(0, len(lits), max(1, len(lits) // 6))][:6],
        "exhaustive": False,
        "programs": (stats or {}).get("programs", 0),
        "program_stats": stats,
    }
    code = 0
    lines = []
    if viol is None:
        code = 3
        lines.append("INCONCLUSIVE property=C18 %s" % stats.get("error"))
        viol = []
    elif viol:
        code = 1
        rp = os.path.join(B.ROOT, "replays", "C18-%s-%d.req" % (tier, seed))
        with open(rp, "w") as f:
            f.write("# property C18\n")
            for v in viol:
                f.write("# %s: from_str -> %s, Dec! -> %s\n" % (v["why"], v["from_str"], v["macro"]))
                f.write("lit %s\n" % v["literal"])
        for v in viol[:5]:
            lines.append("  violating literal: Dec!(%s): %s (from_str -> %s, Dec! -> %s)" % (v["literal"], v["why"], v["from_str"], v["macro"]))
        lines.append("VIOLATION property=C18 replay=%s" % rp)
    ev = {"property_id": ID, "tier": tier, "seed": seed, "level": "exploration", "coverage": cov,
          "assumptions": ["rustc reports every failing proc-macro invocation individually (checked: every reject line must carry an error)",
                          "only generated literals are decided"],
          "wall_s": round(time.time() - t0, 2), "violations": len(viol),
          "verdict": {0: "held on everything observed", 1: "violated", 3: "inconclusive"}[code]}
    E.write_evidence(ID, ev)
    for l in lines:
        print(l)
    print("C18 %s tier=%s seed=%d: %d literals (%s accepted by from_str, %s rejected), %s programs built, %.1fs -> %s"
          % (TITLE, tier, seed, len(lits), (stats or {}).get("accept_literals"), (stats or {}).get("reject_literals"),
             (stats or {}).get("programs"), time.time() - t0, ev["verdict"]))
    return code, ev


def main(tier, seed):
    t0 = time.time()
    rng = random.Random(seed * 31337 + 18)
    lits = literals(rng, N_LITS[tier])
    code, _ = run(lits, tier, seed, t0)
    return code


def replay(path):
    lits = []
    for l in open(path):
        if l.startswith("lit "):
            t = l[4:].rstrip("\n")
            sign = ""
            body = t
            if t[:1] in "+-":
                sign = t[0]
                body = t[1:].lstrip(" ")
            lits.append((t, sign + body))
    code, _ = run(lits, "quick", 0, time.time())
    return code
