"""C16 - results stay correct when intermediates exceed 128 bits."""

import random
import sys

from .. import engine as E
from .. import gen as G
from ..oracle import M, P10, MODES, I128_MIN, in_i128, round_ratio
from .. import knuth as K
from . import arith as A
from . import common as C

ID = "C16"
TITLE = "Results stay correct when intermediates exceed 128 bits"
RULE = ("kernel requests `k_i256 x1 x2 m` (x1*x2 = q*m + r), `k_shdm x k m` (x*10^k = q*m + r), `k_mulr x y p mode`, "
        "`k_shdr x p y mode` (explicit mode) on the doc-hidden fpdec_core functions, oracle = Python divmod / exact "
        "rounding; None accepted only if the floor quotient leaves [-(2^127-1), 2^127-1]; plus API-level mul / div / "
        "mul_rounded / div_rounded requests whose intermediates exceed i128, under all 8 thread modes. Operands are "
        "assembled from 64-bit limbs {0,1,2,2^63-1,2^63,2^63+1,2^64-2,2^64-1, random full, random short} so that "
        "every branch of the multi-word division is reached (hook counters: divisor below/above 2^64, high word >= "
        "divisor, each quotient-digit correction once and twice, both early exits, exact division with negative "
        "sign, quotient overflow, running remainder exactly 2^64 after a correction of the first / second digit - "
        "constructed algebraically in vf/knuth.py, probability 2^-64 otherwise - and the estimate test holding with "
        "equality). Non-trivial = intermediate does not fit i128")
BUILDS = {"quick": [("dev", ()), ("release", ())],
          "thorough": [("dev", ()), ("release", ()), ("o0-nochk", ()), ("release", ("packed",))]}
REQUIRED_SITES = {"idiv64": 1000, "idiv64.y1": 20, "idiv128.hi_ge": 500, "knuth": 1000,
                  "knuth.q1.dec1": 200, "knuth.q1.dec2": 10, "knuth.q1.break": 100,
                  "knuth.q0.dec1": 200, "knuth.q0.dec2": 10, "knuth.q0.break": 100,
                  "shdm.none": 200, "shdm.neg_pos": 200, "shdm.exact_neg": 50,
                  "i256.none": 200, "i256.neg": 200, "i256.exact_neg": 50,
                  "mulr.wide": 100, "divr.less.wide": 100, "round_quot.overflow": 2,
                  "knuth.q1.rhat_eq_b": 50, "knuth.q0.rhat_eq_b": 50, "knuth.q1.eq": 20, "knuth.q0.eq": 20,
                  "knuth.q1.est_gt_b": 5, "knuth.q0.est_gt_b": 20}
THOROUGH_SITE_FACTOR = 20
BUDGET = {"quick": 25, "thorough": 400}
N_RANDOM = {"quick": 16000, "thorough": 40000}
LIMBS = (0, 1, 2, (1 << 63) - 1, 1 << 63, (1 << 63) + 1, (1 << 64) - 2, (1 << 64) - 1)


def floor_spec(P, m):
    q, r = divmod(P, m)
    if -M <= q <= M:
        return ("Q", q, r)
    if q == I128_MIN:
        return ("dc", q, r)
    return ("N",)


def check(toks, resp, mode, build):
    op = toks[0]
    if op in ("k_i256", "k_shdm"):
        if op == "k_i256":
            x1, x2, m = int(toks[1]), int(toks[2]), int(toks[3])
            P = x1 * x2
        else:
            x, k, m = int(toks[1]), int(toks[2]), int(toks[3])
            P = x * P10[k]
        spec = floor_spec(P, m)
        if spec[0] == "Q":
            want = "Q %d %d" % (spec[1], spec[2])
            ok = resp.raw == want
        elif spec[0] == "N":
            want = "N"
            ok = resp.raw == "N"
        else:
            want = "N or Q %d %d" % (spec[1], spec[2])
            ok = resp.raw == "N" or resp.raw == "Q %d %d" % (spec[1], spec[2])
        label = "%s.%s%s" % (op, spec[0], ".exact" if spec[0] != "N" and spec[2] == 0 else "")
        return ("ok" if ok else "viol") if spec[0] != "dc" or not ok else "dc", label, not in_i128(P), want
    if op in ("k_mulr", "k_shdr"):
        if op == "k_mulr":
            x, y, p, m = int(toks[1]), int(toks[2]), int(toks[3]), toks[4]
            P, den = x * y, P10[p]
        else:
            x, p, y, m = int(toks[1]), int(toks[2]), int(toks[3]), toks[4]
            P, den = x * P10[p], y
        v = round_ratio(P, den, m)
        if -M <= v <= M:
            want = "I %d" % v
            ok = resp.raw == want
            return ("ok" if ok else "viol"), op + ".value", not in_i128(P), want
        if v == I128_MIN:
            ok = resp.raw in ("N", "I %d" % v)
            return ("dc" if ok else "viol"), op + ".edge", True, "N or I %d" % v
        # floor quotient may still be representable while the rounded one is not: both must signal
        ok = resp.raw == "N"
        return ("ok" if ok else "viol"), op + ".overflow", True, "N"
    # API level
    form = toks[1]
    l = C.operand(toks[2])
    r = C.operand(toks[3])
    n = int(toks[4]) if len(toks) > 4 else 0
    if op == "mul":
        spec = A.expected_mul(op, l, r, mode)
        wide = not in_i128(l[0] * r[0])
    elif op in ("div", "cdiv"):
        spec = A.expected_div(op, l, r, mode)
        wide = r[0] != 0 and not in_i128(l[0] * P10[max(0, 18 + r[1] - l[1])])
    elif op == "mulr":
        spec = A.expected_mulr(l, r, n, mode)
        wide = not in_i128(l[0] * r[0])
    elif op == "divr":
        spec = A.expected_divr(l, r, n, mode)
        wide = r[0] != 0 and not in_i128(l[0] * P10[max(0, n + r[1] - l[1])])
    else:
        raise ValueError(op)
    verdict = A.judge(spec, form, resp, op == "cdiv")
    return verdict, "api.%s.%s" % (op, spec[0]), wide, A.spec_text(spec, op == "cdiv")


def limb(rng):
    k = rng.randrange(4)
    if k == 0:
        return rng.choice(LIMBS)
    if k == 1:
        return rng.getrandbits(64)
    if k == 2:
        return rng.getrandbits(rng.randrange(1, 64))
    return rng.choice(LIMBS) ^ rng.getrandbits(rng.randrange(1, 8))


def wide(rng, max_val=M):
    v = (limb(rng) << 64) | limb(rng)
    if rng.random() < 0.3:
        v = limb(rng)
    v %= (max_val + 1)
    return v


def sg(rng, v):
    return v if rng.random() < 0.5 else -v


def kernel_reqs(rng, n):
    out = []
    for _ in range(n):
        k = rng.randrange(10)
        m = wide(rng) or 1
        if k < 3:
            x1, x2 = wide(rng), wide(rng)
            if rng.random() < 0.25:
                # exact multiple of m: put m (or a factor of it) into x1
                t = rng.getrandbits(rng.randrange(1, 60)) + 1
                if m * t <= M:
                    x1 = m * t
                else:
                    x1 = m
            if rng.random() < 0.15:
                # quotient near the i128 boundary
                x2 = m
                x1 = M - rng.randrange(0, 3)
            out.append("k_i256 %d %d %d" % (sg(rng, x1), sg(rng, x2), m))
        elif k < 6:
            x = wide(rng)
            kk = rng.randrange(0, 39)
            if rng.random() < 0.25:
                # exact: m divides x * 10^kk
                i, j = rng.randrange(0, kk + 1), rng.randrange(0, kk + 1)
                base = (rng.getrandbits(rng.randrange(1, 64)) | 1)
                m2 = base * (1 << i) * (5 ** j)
                if 0 < m2 <= M:
                    m = m2
                    x = base * (rng.getrandbits(rng.randrange(1, 60)) + 1)
                    x %= (M + 1)
            if rng.random() < 0.1:
                # quotient around 2^127: x*10^kk ~ M*m
                m = wide(rng, M // P10[min(kk, 20)] if kk else M) or 3
                x = min(M, (M * m) // P10[kk] + rng.randrange(-1, 2))
            out.append("k_shdm %d %d %d" % (sg(rng, x), kk, m))
        elif k < 8:
            p = rng.randrange(0, 39)
            x, y = wide(rng), wide(rng)
            if rng.random() < 0.3:
                # tie / exact: x*y = (2t+1) * 10^p / 2
                i = rng.randrange(0, p + 1)
                x = P10[i] * (rng.getrandbits(rng.randrange(1, 40)) | 1)
                y = (P10[p - i] // 2 or 1) * (rng.getrandbits(rng.randrange(1, 40)) | 1)
                x %= (M + 1)
                y %= (M + 1)
            out.append("k_mulr %d %d %d %s" % (sg(rng, x), sg(rng, y), p, rng.choice(MODES)))
        else:
            p = rng.randrange(0, 39)
            x = wide(rng)
            y = sg(rng, m)
            if rng.random() < 0.3 and p > 0:
                # exact tie: x * 10^p / y = t + 1/2 with y = 2^(p+1) * c
                c = rng.getrandbits(rng.randrange(1, 50)) | 1
                y2 = (1 << (p + 1)) * c
                if y2 <= M:
                    y = sg(rng, y2)
                    x = c * (rng.getrandbits(rng.randrange(1, 60)) | 1) % (M + 1)
            out.append("k_shdr %d %d %d %s" % (sg(rng, x), p, y, rng.choice(MODES)))
    return out


def api_reqs(rng, n):
    out = []
    for _ in range(n):
        k = rng.randrange(4)
        if k == 0:
            p = rng.randrange(1, 19)
            q = rng.randrange(max(1, 19 - p), 19)
            a, b = wide(rng), wide(rng)
            out.append("mul %s %s %s" % (rng.choice(("vv", "*")), G.fD(sg(rng, a), p), G.fD(sg(rng, b), q)))
        elif k == 1:
            p, q = rng.randrange(0, 19), rng.randrange(0, 19)
            n_ = rng.randrange(0, 19)
            a, b = wide(rng), wide(rng)
            out.append("mulr %s %s %s %d" % (rng.choice(("vv", "*")), G.fD(sg(rng, a), p), G.fD(sg(rng, b), q), n_))
        elif k == 2:
            q = rng.randrange(0, 19)
            p = rng.randrange(0, min(18, q + 10) + 1)
            a, b = wide(rng), wide(rng) or 7
            out.append("div %s %s %s" % (rng.choice(("vv", "*")), G.fD(sg(rng, a), p), G.fD(sg(rng, b), q)))
        else:
            q, n_ = rng.randrange(0, 19), rng.randrange(0, 19)
            p = rng.randrange(0, 19)
            a, b = wide(rng), wide(rng) or 7
            out.append("divr %s %s %s %d" % (rng.choice(("vv", "*")), G.fD(sg(rng, a), p), G.fD(sg(rng, b), q), n_))
    return out


def gen(rng, tier, shard, batch):
    reqs = kernel_reqs(rng, N_RANDOM[tier])
    if batch == 0 and shard == 0:
        # the floor quotient == 2^127-1 with remainder family (upward rounding must signal)
        for beta in range(2, 10):
            for j in (1, 2):
                need = (-beta * M) % P10[j]
                if 0 < need < beta:
                    a = (beta * M + need) // P10[j]
                    for k in range(j, 19):
                        b = beta * P10[k - j]
                        for m in MODES:
                            reqs.append("k_shdr %d %d %d %s" % (a, k, b, m))
                            reqs.append("k_shdr %d %d %d %s" % (-a, k, b, m))
                            reqs.append("k_shdr %d %d %d %s" % (a, k, -b, m))
                            reqs.append("k_shdr %d %d %d %s" % (-a, k, -b, m))
                        for sa, sb in ((1, 1), (-1, 1), (1, -1), (-1, -1)):
                            reqs.append("k_shdm %d %d %d" % (sa * a, k, sb * b))
                            # API level: k = 18 + q - p
                            for q_ in range(19):
                                p_ = 18 + q_ - k
                                if 0 <= p_ <= 18:
                                    reqs.append("mode " + rng.choice(MODES))
                                    reqs.append("%s * %s %s" % (rng.choice(("div", "cdiv")), G.fD(sa * a, p_), G.fD(sb * b, q_)))
                                    break
    # ... the same for the wide product: |x * y| = (2^127 - 1) * 10^sh + r with 0 <= r < 10^sh, all sign pairs, every mode,
    # as kernel requests (i128_mul_div_ten_pow_rounded, i256_div_mod_floor) and as mul_rounded / *
    if batch == 0:
        for sh in range(1, 37):
            if (sh + shard) % 4:
                continue
            for _try in range(200):
                a = rng.randrange(P10[sh] // 3 + 1, min(M, 4 * P10[sh]))
                b = -((-M * P10[sh]) // a)
                rem = a * b - M * P10[sh]
                if 0 < b <= M and 0 <= rem < P10[sh]:
                    break
            else:
                continue
            for sa, sb in ((1, 1), (-1, 1), (1, -1), (-1, -1)):
                for m in MODES:
                    reqs.append("k_mulr %d %d %d %s" % (sa * a, sb * b, sh, m))
                reqs.append("k_i256 %d %d %d" % (sa * a, sb * b, P10[sh]))
                ab = [(p_, q_) for p_ in range(19) for q_ in range(19) if 0 <= p_ + q_ - sh <= 18]
                if ab:
                    p_, q_ = rng.choice(ab)
                    reqs.append("mode " + rng.choice(MODES))
                    reqs.append("mulr * %s %s %d" % (G.fD(sa * a, p_), G.fD(sb * b, q_), p_ + q_ - sh))
    # the high-word pre-reduction boundary: the upper 128-bit word of the dividend equals the divisor (+-1)
    for _ in range(60 if batch == 0 else 10):
        k = rng.randrange(20, 39)
        hi = P10[k] // 2
        y = rng.randrange(1 << 64, min(hi, M) + 1)
        for dy in (-1, 0, 1):
            x = -((-(y + dy) << 128) // P10[k])
            if 0 < x <= M:
                reqs.append("k_shdm %d %d %d" % (sg(rng, x), k, y))
                reqs.append("k_shdr %d %d %d %s" % (sg(rng, x), k, sg(rng, y), rng.choice(MODES)))
                # API level: x @ p / y @ q with 18 + q - p == k
                q = rng.randrange(max(0, k - 18), 19) if k - 18 < 19 else 18
                p = 18 + q - k
                if 0 <= p <= 18:
                    reqs.append("mode " + rng.choice(MODES))
                    reqs.append("div * %s %s" % (G.fD(sg(rng, x), p), G.fD(sg(rng, y), q)))
        x1 = rng.getrandbits(rng.randrange(100, 127)) | 1
        m = rng.randrange(1 << 64, x1 // 2)
        for dm in (-1, 0, 1):
            x2 = -((-(m + dm) << 128) // x1)
            if 0 < x2 <= M:
                reqs.append("k_i256 %d %d %d" % (sg(rng, x1), sg(rng, x2), m))
    # the 2^64 corners of the quotient-digit correction (constructed algebraically, see vf/knuth.py)
    corner, _stats = K.corner_requests(rng, 12 if tier == "quick" else 30)
    reqs += corner
    reqs += K.small_divisor_top_word_requests(rng, 20 if tier == "quick" else 60)
    reqs += K.api_corner_requests(rng, 6, G.fD) + K.hi_eq_divisor_requests(rng, 6, G.fD)
    # quotient-digit estimate of 2^64 + 1 (divisor with normalised low word > high word; operand found by solving
    # a * x mod yn in [(2^64 + 1) * yn1, yn) with a Euclid-like search)
    reqs += K.est_gt_b_requests(rng, 6 if tier == "quick" else 20, G.fD)[0]
    # estimate numerator an exact multiple of the divisor's normalised high word, normalised low word tiny
    reqs += K.exact_multiple_requests(rng, 120 if tier == "quick" else 300, G.fD)
    # wide products whose cut-off digits are a tie (or zero) plus a non-zero multiple of 2^32 / 2^64 / 2^96
    if batch == 0:
        for x_, a_, y_, b_, n_ in C.wide_tie_word_products(rng)[shard::E.NCPU]:
            reqs.append("mode " + rng.choice(MODES))
            reqs.append("mulr %s %s %s %d" % (rng.choice(("vv", "*", "rr")), G.fD(x_ * rng.choice((1, -1)), a_), G.fD(y_, b_), n_))
            reqs.append("k_mulr %d %d %d %s" % (x_, -y_, a_ + b_ - n_, rng.choice(MODES)))
    # all-ones / single-bit / empty 64-bit limbs in factors and divisor
    lg = G.limb_grid()
    for _ in range(150 if tier == "quick" else 600):
        a, b = rng.choice(lg), rng.choice(lg)
        y = rng.choice((rng.choice(lg), P10[rng.randrange(1, 39)], rng.choice(lg) | 1))
        reqs.append("k_i256 %d %d %d" % (a * rng.choice((1, -1)), b * rng.choice((1, -1)), y))
        reqs.append("k_shdm %d %d %d" % (a * rng.choice((1, -1)), rng.randrange(0, 39), y))
    reqs.append("mode RoundHalfEven")
    per_mode = N_RANDOM[tier] // 16
    for mode in MODES:
        reqs.append("mode " + mode)
        reqs += api_reqs(rng, per_mode)
    return reqs


main = C.standard_main(sys.modules[__name__])
