"""C09 - Hash agrees with equality; as_integer_ratio is the reduced fraction."""

import math
import random
import sys

from .. import engine as E
from .. import gen as G
from ..oracle import M, P10, normalize
from . import common as C

ID = "C09"
TITLE = "Hash agrees with equality; as_integer_ratio is the reduced fraction"
RULE = ("requests `hash D` (SipHash-2-4 with fixed keys of the Decimal), `hashpair n d` (same hasher on the (i128, i128) "
        "pair; also validates the monitor's own SipHash), `ratio D` (as_integer_ratio, numerator, denominator) and "
        "`hashset k D...` (live HashSet + HashMap: insert k representations, probe with the others); oracle: "
        "math.gcd-reduced pair, digest of every representation == digest of the reduced pair; constructed: "
        "coefficients 2^i*5^j*u for all i <= 126, j <= 18 against all scales; every representation of each value. "
        "Non-trivial = scale > 0 and gcd(coefficient, 10^scale) > 1, or several representations of one value")
BUILDS = {"quick": [("dev", ()), ("release", ())],
          "thorough": [("dev", ()), ("release", ()), ("release", ("packed",)), ("o0-nochk", ())]}
MODE_INDEPENDENT = True      # half of every batch runs under a non-default thread rounding mode
REQUIRED_SITES = {"gcd.loop": 1000}
BUDGET = {"quick": 15, "thorough": 200}
N_RANDOM = {"quick": 3000, "thorough": 12000}
MASK = (1 << 64) - 1
K0, K1 = 0x0123456789abcdef, 0xfedcba9876543210


def _rotl(x, b):
    return ((x << b) | (x >> (64 - b))) & MASK


def siphash24(data):
    v0 = K0 ^ 0x736f6d6570736575
    v1 = K1 ^ 0x646f72616e646f6d
    v2 = K0 ^ 0x6c7967656e657261
    v3 = K1 ^ 0x7465646279746573

    def rnd(v0, v1, v2, v3):
        v0 = (v0 + v1) & MASK; v1 = _rotl(v1, 13); v1 ^= v0; v0 = _rotl(v0, 32)
        v2 = (v2 + v3) & MASK; v3 = _rotl(v3, 16); v3 ^= v2
        v0 = (v0 + v3) & MASK; v3 = _rotl(v3, 21); v3 ^= v0
        v2 = (v2 + v1) & MASK; v1 = _rotl(v1, 17); v1 ^= v2; v2 = _rotl(v2, 32)
        return v0, v1, v2, v3
    n = len(data)
    for i in range(0, n - n % 8, 8):
        m = int.from_bytes(data[i:i + 8], "little")
        v3 ^= m
        v0, v1, v2, v3 = rnd(v0, v1, v2, v3)
        v0, v1, v2, v3 = rnd(v0, v1, v2, v3)
        v0 ^= m
    last = data[n - n % 8:] + b"\0" * (7 - n % 8) + bytes([n & 0xff])
    m = int.from_bytes(last, "little")
    v3 ^= m
    v0, v1, v2, v3 = rnd(v0, v1, v2, v3)
    v0, v1, v2, v3 = rnd(v0, v1, v2, v3)
    v0 ^= m
    v2 ^= 0xff
    for _ in range(4):
        v0, v1, v2, v3 = rnd(v0, v1, v2, v3)
    return v0 ^ v1 ^ v2 ^ v3


def pair_digest(n, d):
    return siphash24((n & ((1 << 128) - 1)).to_bytes(16, "little") + (d & ((1 << 128) - 1)).to_bytes(16, "little"))


def reduced(c, s):
    g = math.gcd(abs(c), P10[s])
    return c // g, P10[s] // g


def check(toks, resp, mode, build):
    op = toks[0]
    if op == "hashpair":
        n, d = int(toks[1]), int(toks[2])
        want = "U %d" % pair_digest(n, d)
        if resp.raw != want:
            raise RuntimeError("monitor's SipHash-2-4 disagrees with the driver's hasher on a plain pair")
        return "ok", "hashpair(selfcheck)", False, want
    if op == "hashseq":
        c, s_ = E.pD(toks[1])
        n, d = reduced(c, s_)
        if (n, d) != (int(toks[2]), int(toks[3])):
            raise RuntimeError("hashseq request carries a wrong reduced pair")
        ok = resp.kind == "U" and len(resp.f) == 2 and resp.f[0] == resp.f[1]
        return ("ok" if ok else "viol"), "hashseq", s_ > 0, "Decimal and its (n, d) pair make the same sequence of typed Hasher calls"
    if op == "hash":
        c, s = E.pD(toks[1])
        n, d = reduced(c, s)
        want = "U %d" % pair_digest(n, d)
        return ("ok" if resp.raw == want else "viol"), "hash", s > 0, want + " = digest of (%d, %d)" % (n, d)
    if op == "ratio":
        c, s = E.pD(toks[1])
        n, d = reduced(c, s)
        want = "R %d %d %d %d" % (n, d, n, d)
        return ("ok" if resp.raw == want else "viol"), "ratio", s > 0 and d != P10[s], want
    if op == "hashslice":
        n = int(toks[1])
        from fractions import Fraction
        a = [Fraction(c, P10[s]) for c, s in (E.pD(t) for t in toks[2:2 + n])]
        b_ = [Fraction(c, P10[s]) for c, s in (E.pD(t) for t in toks[2 + n:2 + 2 * n])]
        eq = a == b_
        want = "U h h g g t t 11 (equal sequences hash alike as Vec, slice and tuple)" if eq else "U .. 00"
        f = resp.f
        if resp.kind != "U" or len(f) != 7:
            return "viol", "hashslice", True, want
        if eq:
            ok = f[0] == f[1] and f[2] == f[3] and f[4] == f[5] and f[6] == "11"
        else:
            ok = f[6] == "00"
        return ("ok" if ok else "viol"), "hashslice." + ("eq" if eq else "ne"), True, want
    if op == "hashset":
        k = int(toks[1])
        items = [E.pD(t) for t in toks[2:]]
        from fractions import Fraction
        vals = [Fraction(c, P10[s]) for c, s in items]
        ins = set(vals[:k])
        bits = "".join("1" if v in ins else "0" for v in vals[k:]) or "-"
        want = "H %d %d %s" % (len(ins), len(ins), bits)
        return ("ok" if resp.raw == want else "viol"), "hashset", True, want
    raise ValueError(op)


def gcd_passes(numer, exp):
    """Number of passes of a binary (Stein) gcd of |numer| and 10^exp with the powers of two stripped first.
    Classification only (which inputs make the reduction loop run longest); never used as an oracle."""
    u = abs(numer)
    u >>= (u & -u).bit_length() - 1
    v = 5 ** exp
    n = 0
    while v:
        n += 1
        v >>= (v & -v).bit_length() - 1
        if u > v:
            u, v = v, u
        v -= u
    return n


def long_chains(rng, budget):
    """Hill-climb towards coefficients whose reduction takes unusually many passes (iteration-bounded loops,
    early exits and 'average case' shortcuts fail here first)."""
    best = []
    for exp in (18, 17, 1, 2, 9):
        pool = []
        for _ in range(budget):
            c = rng.getrandbits(127) | (1 << 126) | 1
            pool.append((gcd_passes(c, exp), c))
        pool.sort(reverse=True)
        top = pool[:6]
        # local search around the best candidates: flip low / middle bits
        for score, c in list(top):
            cur_s, cur = score, c
            for _ in range(budget // 4):
                cand = cur ^ (1 << rng.randrange(1, 126))
                if cand > M:
                    continue
                sc = gcd_passes(cand, exp)
                if sc >= cur_s:
                    cur_s, cur = sc, cand
            top.append((cur_s, cur))
        top.sort(reverse=True)
        for score, c in top[:8]:
            best.append((c, exp, score))
    return best


def constructed(rng):
    out = []
    for k in range(100, 127):
        for off in range(0, 40):
            for s in (1, 2, 18):
                c = (1 << k) - off
                out.append("ratio %s" % G.fD(c, s))
                out.append("hash %s" % G.fD(-c, s))
    for off in range(0, 64):
        for s in (1, 2, 3, 18):
            out.append("ratio %s" % G.fD(M - off, s))
            out.append("hash %s" % G.fD(-(M - off), s))
    for i in range(0, 127, 3):
        for j in range(0, 19):
            u = rng.choice((1, 3, 7, 11, rng.getrandbits(20) | 1))
            c = (1 << i) * (5 ** j) * u
            if c > M:
                c = (1 << i) * (5 ** j)
            if c > M:
                continue
            for s in (0, 1, j, 18, rng.randrange(0, 19)):
                for sg in (1, -1):
                    out.append("ratio %s" % G.fD(sg * c, s))
                    out.append("hash %s" % G.fD(sg * c, s))
    # live sets with wrap twins (values that an unchecked alignment would make look equal) and near neighbours
    for _ in range(150):
        p = rng.randrange(0, 18)
        q = rng.randrange(p + 1, 19)
        k = q - p
        a = rng.randrange(M // P10[k] + 1, min(M, 3 * (M // P10[k] + 1)) + 1) * rng.choice((1, -1))
        w = G.wrap_twin(a, k)
        if w is None:
            continue
        items = [(a, p), (w, q)] + G.representations(a, p)[:3] + G.representations(w, q)[:3]
        rng.shuffle(items)
        kk = rng.randrange(1, len(items))
        out.append("hashset %d %s" % (kk, " ".join(G.fD(*t) for t in items)))
        out.append("hashset %d %s" % (len(items), " ".join(G.fD(*t) for t in items)))
    for s in range(19):
        out.append("ratio D0:%d" % s)
        out.append("hash D0:%d" % s)
    for n, d in ((0, 1), (1, 1), (-1, 1), (M, 1), (-M, 1), (1, P10[18]), (-5, 2), (3, 8)):
        out.append("hashpair %d %d" % (n, d))
    return out


_CON = None


def gen(rng, tier, shard, batch):
    global _CON
    reqs = []
    for c, exp, score in long_chains(rng, 400 if tier == "quick" else 2000):
        for cc in (c, -c):
            reqs.append("ratio %s" % G.fD(cc, exp))
            reqs.append("hash %s" % G.fD(cc, exp))
    if batch == 0:
        if _CON is None:
            _CON = constructed(random.Random(20260109))
        reqs += _CON[shard::E.NCPU]
    if batch == 0:
        for c, n_ in G.wrapped_multiples()[shard::E.NCPU]:
            reqs.append("ratio %s" % G.fD(c * rng.choice((1, -1)), n_))
            reqs.append("hash %s" % G.fD(c, n_))
        # decision boundary of division-free divisibility tests (x * inverse(5^n) mod 2^w against floor((2^w - 1) / 5^n))
        for c, n_ in G.modinv_boundary_all(rng)[shard::E.NCPU]:
            for s in set((n_, 18, rng.randrange(0, 19))):
                reqs.append("ratio %s" % G.fD(c * rng.choice((1, -1)), s))
                reqs.append("hash %s" % G.fD(c, s))
    for _ in range(N_RANDOM[tier]):
        c, s = G.dec(rng)
        k = rng.random()
        if k < 0.3:
            # odd part >= 2^64 and divisible by 5, negative endings in 5, etc.
            c = (rng.getrandbits(rng.randrange(60, 120)) | 1) * rng.choice((1, 5, 25, 125)) * rng.choice((1, -1))
            if abs(c) > M:
                c = c % M
        reps = G.representations(c, s)
        for r in reps:
            reqs.append("hash %s" % G.fD(*r))
        n_, d_ = reduced(c, s)
        reqs.append("hashseq %s %d %d" % (G.fD(*rng.choice(reps)), n_, d_))
        r = rng.choice(reps)
        reqs.append("ratio %s" % G.fD(*r))
        if rng.random() < 0.2:
            n, d = reduced(c, s)
            reqs.append("hashpair %d %d" % (n, d))
        if rng.random() < 0.1:
            # composite keys: the same values in other representations (and one deliberately different sequence)
            n = rng.randrange(1, 5)
            seq = [(c, s)] + [G.dec(rng) for _ in range(n - 1)]
            alt = [rng.choice(G.representations(*x)) for x in seq]
            if rng.random() < 0.2:
                j = rng.randrange(n)
                alt[j] = (alt[j][0] + (1 if alt[j][0] < M else -1), alt[j][1])
            reqs.append("hashslice %d %s %s" % (n, " ".join(G.fD(*x) for x in seq), " ".join(G.fD(*x) for x in alt)))
        if rng.random() < 0.15:
            items = []
            for _ in range(rng.randrange(2, 6)):
                cc, ss = G.dec(rng)
                rr = G.representations(cc, ss)
                items += [rng.choice(rr) for _ in range(rng.randrange(1, 5))]
            items += reps
            rng.shuffle(items)
            kk = rng.randrange(1, len(items))
            reqs.append("hashset %d %s" % (kk, " ".join(G.fD(*t) for t in items)))
    return reqs


def main(tier, seed):
    """Line-protocol monitor, then an in-process bulk monitor: as_integer_ratio / numerator / denominator of tens of
    millions of full-width coefficients against the 2- and 5-adic valuations (long reduction chains are rare,
    P(> 100 passes) ~ 1e-7 per sample: volume is what reaches them)."""
    from .. import build as B
    code, ev = E.run_property(sys.modules[__name__], tier, seed)
    binary = B.build("release", ())
    sw = E.run_sweep(binary, ["--sweep-ratio", 1500000 if tier == "quick" else 100000000, seed, E.NCPU], timeout=6000)

    def rl(ex):
        parts = ex.split(" ")
        return "ratio %s" % parts[2]
    code = E.fold_sweep(ID, code, ev, "ratio_bulk_sweep", sw, tier, seed, rl)
    E.write_evidence(ID, ev)
    return code
