"""C11 - formatting with precision, width, fill, alignment and sign flags is correct."""

import random
import sys

from .. import engine as E
from .. import gen as G
from ..oracle import M, P10, MODES, fmt_expected, round_ratio
from . import common as C

ID = "C11"
TITLE = "Formatting with precision, width, fill, alignment and sign flags is correct"
RULE = ("requests `fmt <flagset> <width|-> <precision|-> D<c>:<s>` through 14 static format! call sites {none < ^ > 0 + "
        "+0 *< *^ *> # e-acute> +< <0} x {width absent / 0..60} x {precision absent / 0..40} under each of the 8 "
        "thread rounding modes; oracle: digits from the exact rational rounded to min(P,18) under the mode, sign "
        "from d, then Rust integer padding rules; constructed: carries into the integer part (9.99 -> 10.0), "
        "negative values rounding to zero (-0.0), ties under every mode, precision = scale +- 1, 2^127-1 @ 1 with "
        "precision 2..18. Non-trivial = precision given and != scale, or width > text length")
BUILDS = {"quick": [("dev", ()), ("release", ())],
          "thorough": [("dev", ()), ("release", ()), ("release", ("packed",)), ("o0-nochk", ())]}
REQUIRED_SITES = {"round_quot.tie": 100}
BUDGET = {"quick": 20, "thorough": 250}
N_RANDOM = {"quick": 1500, "thorough": 6000}
FLAGS = {
    "none": {}, "left": {"align": "<"}, "center": {"align": "^"}, "right": {"align": ">"},
    "zero": {"zero": True}, "plus": {"plus": True}, "pluszero": {"plus": True, "zero": True},
    "fill_left": {"fill": "*", "align": "<"}, "fill_center": {"fill": "*", "align": "^"},
    "fill_right": {"fill": "*", "align": ">"}, "alt": {}, "fill_utf8": {"fill": "é", "align": ">"},
    "plus_left": {"plus": True, "align": "<"}, "zero_left": {"zero": True, "align": "<"},
}
FLAGNAMES = list(FLAGS)


def check(toks, resp, mode, build):
    if toks[0] == "fmtfail":
        return C.check_fmtfail(toks, resp, mode)
    if toks[0] == "fmtpanic":
        return C.check_fmtpanic(toks, resp, mode)
    flags = toks[1]
    w = None if toks[2] == "-" else int(toks[2])
    p = None if toks[3] == "-" else int(toks[3])
    c, s = E.pD(toks[4])
    want = fmt_expected(c, s, mode, FLAGS[flags], w, p)
    ok = resp.kind[0] == "S" and resp.raw == E.hexs(want)
    nontriv = (p is not None and p != s) or (w is not None and w > len(want) - 1)
    got = ""
    return ("ok" if ok else "viol"), "fmt." + flags, nontriv, "%s (%r)" % (E.hexs(want), want)


def req(flags, w, p, c, s):
    return "fmt %s %s %s %s" % (flags, "-" if w is None else w, "-" if p is None else p, G.fD(c, s))


def constructed(rng):
    out = []
    for s in range(1, 19):
        for p in (0, 1, s - 1, s, s + 1, 18, 19, 40):
            if p < 0:
                continue
            cands = [P10[s] - 1, -(P10[s] - 1), 999 * P10[s] + P10[s] - 1, -1, 1, -4, 4, -5 * P10[s - 1], 5 * P10[s - 1],
                     15 * P10[s - 1], -25 * P10[s - 1], M, -M, 0, P10[s] // 2 + 1, -(P10[s] // 2) - 1]
            for c in cands:
                if abs(c) > M:
                    continue
                fl = rng.choice(FLAGNAMES)
                w = rng.choice((None, 0, 5, 12, 30, 60))
                out.append(req(fl, w, p, c, s))
                out.append(req("none", None, p, c, s))
    for s in (0,):
        for p in (None, 0, 1, 17, 18, 19, 25, 40):
            for c in (0, 1, -1, -12345, M, -M):
                for fl in FLAGNAMES:
                    out.append(req(fl, rng.choice((None, 3, 25, 60)), p, c, s))
    # seams of the digit split: coefficient = Q * 10^k + r with Q at floor(T / 10^k) +- 2 (T = maxima of the primitive
    # types), r = 0 / 1 / all nines / half; printed as is (split at the scale) and rounded (split after rounding)
    for s in range(1, 19):
        for c in G.split_values(rng, s, 2):
            for sgn in (1, -1):
                out.append(req(rng.choice(FLAGNAMES), rng.choice((None, 45)), rng.choice((None, s, s + 3)), sgn * c, s))
        for k in range(1, s):
            # scale s, precision k: the rounded coefficient is split at k digits
            for c in G.split_values(rng, k, 0)[::5]:
                cc = c * P10[s - k] + rng.choice((0, 1, P10[s - k] // 2, P10[s - k] - 1))
                if cc <= M:
                    out.append(req("none", None, k, cc * rng.choice((1, -1)), s))
    # multiples of 10^n beyond 2^64 / 2^128 reduced modulo the word size
    for c, n_ in G.wrapped_multiples()[::2]:
        s = rng.randrange(n_, 19)
        out.append(req(rng.choice(FLAGNAMES), None, rng.choice((None, s - n_, s)), c * rng.choice((1, -1)), s))
    # decision boundary of division-free divisibility tests (x * inverse(5^n) mod 2^w against floor((2^w - 1) / 5^n))
    for c, n_ in G.modinv_boundary_all(rng)[::2]:
        s = rng.randrange(n_, 19)
        out.append(req(rng.choice(FLAGNAMES), None, rng.choice((None, s - n_, s)), c * rng.choice((1, -1)), s))
    # kept digits (after cutting s - p of them) with binary-structured limbs, every residue mod 5
    for s in range(1, 19):
        p = rng.randrange(0, s)
        for c in G.limb_quotient_values(rng, s - p, 8):
            out.append(req(rng.choice(FLAGNAMES), rng.choice((None, 50)), p, c * rng.choice((1, -1)), s))
    # zero values under every flag set, with and without width / precision
    for s in range(0, 19, 3):
        for fl in FLAGNAMES:
            for w in (None, 0, 1, 9):
                for p in (None, 0, 2, 18):
                    out.append(req(fl, w, p, 0, s))
    # coefficients at the widths of the primitive types, every scale class
    for c in G.type_boundary_coeffs():
        for s in (1, 4, 18):
            for p in (None, 0, max(0, s - 1), s + 2):
                out.append(req(rng.choice(FLAGNAMES), rng.choice((None, 30)), p, c, s))
    # 2^127-1 with one fractional digit, zero-extended (must not overflow)
    for p in range(0, 41, 3):
        out.append(req("plus", 50, p, M, 1))
        out.append(req("zero", 50, p, -M, 1))
    return out


_CON = None


def gen(rng, tier, shard, batch):
    global _CON
    reqs = []
    mine = []
    if batch == 0:
        if _CON is None:
            _CON = constructed(random.Random(20260111))
        mine = _CON[shard::E.NCPU]
    for mode in MODES:
        reqs.append("mode " + mode)
        reqs += mine
        for _ in range(N_RANDOM[tier]):
            c, s = G.dec(rng)
            k = rng.random()
            if k < 0.4:
                c = G.small_coeff(rng, 40)
            fl = rng.choice(FLAGNAMES)
            w = rng.choice((None, None, rng.randrange(0, 61)))
            p = rng.choice((None, rng.randrange(0, 41), rng.randrange(0, 20), max(0, s - 1)))
            if s > 0 and p is not None and p < s and rng.random() < 0.3:
                # exact tie at precision p
                sh = s - p
                q = rng.getrandbits(rng.randrange(1, 30))
                c = (q * P10[sh] + 5 * P10[sh - 1]) * rng.choice((1, -1))
            reqs.append(req(fl, w, p, c, s))
            if rng.random() < 0.02:
                # a write into a sink that fails part-way; the following requests must be unaffected
                c2, s2 = G.dec(rng)
                reqs.append("%s %d %s %s" % (rng.choice(("fmtfail", "fmtpanic")), rng.randrange(0, 45), rng.choice(("-", str(rng.randrange(0, 30)))), G.fD(c2, s2)))
    return reqs


main = C.standard_main(sys.modules[__name__])
