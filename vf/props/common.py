"""Helpers shared by the property modules."""

import os

from .. import engine as E
from ..oracle import M, P10, in_i128, OP_INT_TYPES, INT_TYPES, MODES
from .. import gen as G

FORMS_D = ["vv", "rv", "vr", "rr", "av", "ar"]   # Decimal lhs, operators
FORMS_4 = ["vv", "rv", "vr", "rr"]


def operand(tok):
    """-> (coeff, scale, inttype or None)"""
    if tok[0] == "D":
        c, s = tok[1:].split(":")
        return int(c), int(s), None
    t, v = tok.split(":")
    return int(v), 0, t


def sub_results(resp):
    """Results of a `*` (all forms) response: list of (form, Resp)."""
    body = resp.raw[2:]
    out = []
    for part in body.split("|"):
        name, _, val = part.partition("=")
        out.append((name, E.Resp(val)))
    return out


def results(form, resp):
    if form == "*":
        return sub_results(resp)
    return [(form, resp)]


def pick_form(rng, lhs_is_dec, operator, star=0.25):
    if rng.random() < star:
        return "*"
    if operator and lhs_is_dec:
        return rng.choice(FORMS_D)
    return rng.choice(FORMS_4)


def shape_operands(rng, shape=None):
    """Random operands for a shape in DD, Di, iD; returns (ltok, rtok)."""
    if shape is None:
        shape = rng.choice(("DD", "DD", "Di", "iD"))
    if shape == "DD":
        return G.fD(*G.dec(rng)), G.fD(*G.dec(rng))
    ty = G.int_type(rng)
    i = G.fI(ty, G.int_of(rng, ty))
    if shape == "Di":
        return G.fD(*G.dec(rng)), i
    return i, G.fD(*G.dec(rng))


def budget(tier, quick, thorough):
    b = os.environ.get("VERIF_BUDGET_S")
    if b:
        return float(b)
    return quick if tier == "quick" else thorough


def standard_main(prop):
    def main(tier, seed):
        code, _ = E.run_property(prop, tier, seed)
        return code
    return main


_GRID = {}


def small_grid(tier, shard, nshards):
    """Exhaustive small sub-domain: every coefficient pair in [-n, n]^2 at every scale pair of a scale set
    (quick: n = 6, scales {0,1,2,9,17,18}; thorough: n = 12, all 19 scales). Returns this shard's slice of
    (a, p, b, q) tuples. Residue-class and small-number slips cannot hide from an enumeration."""
    key = (tier, shard, nshards)
    if key not in _GRID:
        n = 6 if tier == "quick" else 12
        scales = (0, 1, 2, 9, 17, 18) if tier == "quick" else tuple(range(19))
        out = []
        i = 0
        for a in range(-n, n + 1):
            for b in range(-n, n + 1):
                for p in scales:
                    for q in scales:
                        if i % nshards == shard:
                            out.append((a, p, b, q))
                        i += 1
        _GRID[key] = out
    return _GRID[key]


GRID_NOTE = ("exhaustive sub-domain: every coefficient pair in [-6, 6]^2 x scales {0,1,2,9,17,18}^2 (quick) / "
             "[-12, 12]^2 x all 361 scale pairs (thorough)")


def check_fmtfail(toks, resp, mode):
    """`fmtfail <cap> <p|-> D`: Display into a sink that refuses to grow beyond cap bytes. If everything fits the text
    must be the expected one; if not, the call must report the error (not panic) and what reached the sink must be a
    prefix of the expected text. The request is mainly a perturbation: the calls that follow must be unaffected."""
    from ..oracle import fmt_expected
    from .. import engine as E
    cap = int(toks[1])
    p = None if toks[2] == "-" else int(toks[2])
    c, s = E.pD(toks[3])
    want = fmt_expected(c, s, mode, {}, None, p)
    fits = len(want.encode()) <= cap
    exp = "W %s ok" % E.hexs(want) if fits else "W <prefix of %s> err" % E.hexs(want)
    if resp.kind != "W" or len(resp.f) != 2:
        return "viol", "fmtfail", True, exp
    got = E.unhex(resp.f[0])
    if fits:
        ok = resp.f[1] == "ok" and got == want
    else:
        ok = resp.f[1] == "err" and want.startswith(got) and len(got.encode()) <= cap
    return ("ok" if ok else "viol"), "fmtfail." + ("fits" if fits else "fails"), True, exp


def wide_tie_word_products(rng, fixed_n=None):
    """(x, a, y, b, n): x @ a * y @ b rounded to n digits cuts p = a + b - n digits off a product beyond i128 whose
    cut-off part is d * 10^(p-1) + j * 2^w (d = 5 or 0, w = 32 / 64 / 96, j > 0): a tie, or nothing, plus a non-zero
    multiple of a machine word - where "something non-zero follows" is judged from a truncated word. y is random and
    coprime to 10, the kept quotient is solved modulo y."""
    from ..oracle import M, P10
    out = []
    for p in range(2, 37):
        for d in (5, 0):
            for w in (32, 64, 96):
                if (1 << w) >= P10[p - 1]:
                    continue
                j = rng.randrange(1, max(2, min(1 << 30, P10[p - 1] >> w)))
                r = d * P10[p - 1] + (j << w)
                for _try in range(20):
                    y = rng.getrandbits(rng.randrange(30, 110)) | 1
                    if y % 5 == 0:
                        continue
                    q0 = (-r * pow(P10[p], -1, y)) % y
                    tmax = (M * y // P10[p] - q0) // y
                    if tmax < 1:
                        continue
                    q = q0 + rng.randrange(max(0, tmax // 2), tmax + 1) * y
                    t = q * P10[p] + r
                    x = t // y
                    if t % y or x > M or q > M or t <= M:
                        continue
                    ab = [(a, b) for a in range(19) for b in range(19)
                          if 0 <= a + b - p <= 18 and (fixed_n is None or a + b - p == fixed_n)]
                    if not ab:
                        break
                    a, b = rng.choice(ab)
                    out.append((x, a, y, b, a + b - p))
                    break
    return out


def products_near_type_maxima(rng, fixed_n=None):
    """(x, a, y, b, n): x @ a * y @ b whose coefficient product is Q * 10^p + r (p = a + b - n digits are cut off) with r
    in {all nines, all nines - 1, 0, 1, half, half +- 1} and the product within a few thousand units below a
    primitive-type maximum T (2^31, 2^32, 2^63, 2^64, 2^127, 2^128) or in the upper 40 % of the band below it: where a
    narrow fast path for the division by 10^p runs out of range, and where reciprocal constants stop being exact."""
    from ..oracle import M, P10
    from .. import gen as G
    out = []
    for T in G.TYPE_MAXIMA:
        for p in range(1, 19):
            t = P10[p]
            if t * 4 > T:
                continue
            for r in (t - 1, t - 2, 0, 1, t // 2, t // 2 + 1, t // 2 - 1):
                for _try in range(6):
                    y = rng.getrandbits(rng.randrange(3, 40)) | 1
                    if y % 5 == 0:
                        continue
                    q0 = (-r * pow(t, -1, y)) % y
                    qmax = (T - r) // t
                    if rng.random() < 0.5:
                        qmax -= rng.randrange(0, max(1, (4 * qmax) // 10))        # somewhere in the upper 40 % of the band
                    if qmax < q0:
                        continue
                    q = qmax - ((qmax - q0) % y) - y * rng.randrange(0, 3)
                    if q < 0:
                        continue
                    prod = q * t + r
                    x = prod // y
                    if prod % y or x > M or x == 0:
                        continue
                    ab = [(a, b) for a in range(19) for b in range(19)
                          if 0 <= a + b - p <= 18 and (fixed_n is None or a + b - p == fixed_n)]
                    if not ab:
                        break
                    a, b = rng.choice(ab)
                    out.append((x, a, y, b, a + b - p))
                    break
    return out


def check_fmtpanic(toks, resp, mode):
    """`fmtpanic <cap> <p|-> D`: Display (`{}` or `{:+.p$}`) into a sink that panics once more than cap bytes arrive;
    the driver catches the panic. If everything fits the byte count must be the expected one, otherwise the panic must
    surface (P) or the error be reported. Mainly a perturbation: later calls must be unaffected."""
    from ..oracle import fmt_expected
    from .. import engine as E
    cap = int(toks[1])
    p = None if toks[2] == "-" else int(toks[2])
    c, s = E.pD(toks[3])
    want = fmt_expected(c, s, mode, {} if p is None else {"plus": True}, None, p)
    n = len(want.encode())
    if n <= cap:
        exp = "W %d ok" % n
        ok = resp.raw == exp
    else:
        exp = "P <sink exploded> (or W .. err)"
        ok = resp.kind == "P" or (resp.kind == "W" and len(resp.f) == 2 and resp.f[1] == "err")
    return ("ok" if ok else "viol"), "fmtpanic." + ("fits" if n <= cap else "explodes"), True, exp


def check_serdefail(toks, resp):
    """`serdefail <cap> D`: serde_json::to_writer into a writer that fails after cap bytes."""
    from ..oracle import canonical_str
    from .. import engine as E
    cap = int(toks[1])
    c, s = E.pD(toks[2])
    n = len(canonical_str(c, s)) + 2
    if resp.kind != "W" or len(resp.f) != 2:
        return "viol", "serdefail", True, "W <n> ok|err"
    fits = n <= cap
    ok = (resp.f[1] == "ok" and int(resp.f[0]) == n) if fits else resp.f[1] == "err"
    return ("ok" if ok else "viol"), "serdefail." + ("fits" if fits else "fails"), True, ("W %d ok" % n if fits else "W <= %d err" % cap)


DEBUGF_KINDS = ("p1", "p0", "p30", "w20", "plus", "alt", "zw", "vec1", "opt2", "tup")


def check_debugf(toks, resp):
    """`debugf <kind> D`: Debug with format flags, alone and inside Vec / Option / tuple (which forward the flags to their
    elements). The text inside Dec!(..) must be the canonical string whatever the flags; padding around the whole
    `Dec!(..)` token is not fixed by the statement and is ignored."""
    import re
    from ..oracle import canonical_str
    from .. import engine as E
    kind = toks[1]
    c, s = E.pD(toks[2])
    tok = "Dec!(" + canonical_str(c, s) + ")"
    got = E.unhex(resp.raw) if resp.kind.startswith("S") else None
    exp = {"vec1": "[%s]", "opt2": "Some(%s)", "tup": "(%s, 1)"}.get(kind, "%s") % tok
    if got is None:
        return "viol", "debugf." + kind, s > 0, E.hexs(exp)
    norm = re.sub(r"\s+", " ", got.strip())
    norm = norm.replace("( ", "(").replace(" )", ")").replace("[ ", "[").replace(" ]", "]").replace(" ,", ",")
    norm = re.sub(r",\s*(\)|\])", r"\1", norm)           # pretty-printers add a trailing comma
    norm = norm.replace(", 1)", ", 1)")
    ok = norm == exp or re.sub(r"\s+", "", norm) == re.sub(r"\s+", "", exp)
    return ("ok" if ok else "viol"), "debugf." + kind, s > 0, "%s (%s)" % (E.hexs(exp), exp)


def native_width_cases(rng):
    """[(D token, int token)]: Decimals whose value is the minimum / maximum (+-1) of an integer type, as integers
    (scale 0) and with trailing zeros, paired with that type's -1, 1, 2, minimum and maximum: where a fast path that
    drops to native-width arithmetic overflows (T::MIN / -1, T::MIN % -1, T::MIN * -1, T::MIN - 1, ...)."""
    from ..oracle import M, P10, OP_INT_TYPES, INT_TYPES
    from .. import gen as G
    out = []
    for ty in OP_INT_TYPES:
        lo, hi = INT_TYPES[ty]
        ivals = [v for v in (-1, 1, 2, lo, hi, -2, 10) if lo <= v <= hi]
        for dv in (lo, lo + 1, lo - 1, hi, hi + 1, hi - 1, -hi, 0):
            for s in (0, 0, rng.randrange(1, 19)):
                c = dv * P10[s]
                if abs(c) > M:
                    continue
                for iv in ivals:
                    out.append((G.fD(c, s), G.fI(ty, iv)))
    return out


def pow2_products():
    """[(D token, int token)]: coefficient +-2^a times an integer +-2^b of every type with a + b = 127 (the product is
    exactly +-2^127: -2^127 fits an i128, +2^127 does not) and a + b = 126."""
    from ..oracle import M, OP_INT_TYPES, INT_TYPES
    from .. import gen as G
    out = []
    for ty in OP_INT_TYPES:
        lo, hi = INT_TYPES[ty]
        for b in range(0, 128):
            for iv in (1 << b, -(1 << b)):
                if not lo <= iv <= hi:
                    continue
                for tot in (127, 126):
                    a = tot - b
                    if a < 0 or a > 126:
                        continue
                    for cs in (1, -1):
                        out.append((G.fD(cs * (1 << a), 0), G.fI(ty, iv)))
    return out
