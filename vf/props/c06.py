"""C06 - parsing accepts exactly the literal grammar and never yields a wrong value."""

import os
import random
import re
import subprocess
import sys
import time

from .. import build as B
from .. import engine as E
from .. import gen as G
from ..oracle import M, P10, parse_literal
from . import common as C

ID = "C06"
TITLE = "Parsing accepts exactly the literal grammar and never yields a wrong value"
RULE = ("requests `parse|tryfrom_str|tryfrom_string|str2dec S<hex utf-8>`; every string is placed in its own exact-size "
        "heap allocation; oracle: regex grammar + big-int value/scale, Ok iff grammar and fraction length - exponent <= 18 "
        "and |coefficient| <= 2^127-1, Empty only for the empty string, a panic is a violation; workload: grammar-directed "
        "generator (0..45 integer digits with/without leading zeros, 0..45 fraction digits, exponents of 0..25 digits), "
        "mutation over a hostile alphabet (digits . e E + - _ x space NUL '/' ':' multi-byte UTF-8 incl. Arabic-Indic "
        "digits and continuation bytes 0xB0..0xB9) at all 8 lane positions and across 8-byte chunk boundaries, digit "
        "strings at 10^38+-d, 2^127+-d, 2^128+-d, k*2^128+[10^38,2^127) (the wrap-back zone) split at every int/fraction "
        "position, near-miss literals. Memory safety: the same strings under AddressSanitizer (nightly build) and Miri. "
        "Non-trivial = >= 8 consecutive digits, or 38..40 significant digits, or exponent present, or rejected near-miss")
BUILDS = {"quick": [("dev", ()), ("release", ())],
          "thorough": [("dev", ()), ("release", ()), ("release", ("packed",)), ("o0-nochk", ())]}
MODE_INDEPENDENT = True      # half of every batch runs under a non-default thread rounding mode
REQUIRED_SITES = {"parse.chunk_accept": 1000, "parse.chunk_reject": 500, "parse.tail_digit": 1000,
                  "parse.ovf_ndigits": 100, "parse.ovf_39": 100, "parse.ovf_max": 50, "parse.exp_saturated": 20}
BUDGET = {"quick": 20, "thorough": 250}
N_RANDOM = {"quick": 8000, "thorough": 30000}
OPS = ("parse", "parse", "tryfrom_str", "tryfrom_string", "str2dec")
_LIT = re.compile(r"([+-]?)(?:([0-9]+)(?:(\.)([0-9]*))?|\.([0-9]+))(?:[eE]([+-]?)([0-9]+))?")
_RUN8 = re.compile(r"[0-9]{8}")


def raw_value(s):
    """(coefficient, exponent) of a literal in the grammar, unbounded; None if not in the grammar."""
    m = _LIT.fullmatch(s)
    if m is None:
        return None
    sgn, ipart, _dot, fpart, fonly, esgn, edigits = m.groups()
    if ipart is None:
        ipart, fpart = "", fonly
    fpart = fpart or ""
    if len((ipart + fpart).lstrip("0")) > 60:
        return "huge"
    c = int(ipart + fpart)
    if sgn == "-":
        c = -c
    if edigits is None:
        e = 0
    else:
        ed = edigits.lstrip("0")
        e = 10 ** 18 if len(ed) > 18 else (int(ed) if ed else 0)
        if esgn == "-":
            e = -e
    return c, e - len(fpart)


def check(toks, resp, mode, build):
    op = toks[0]
    s = E.unhex(toks[1])
    exp = parse_literal(s)
    sig = len(s.lstrip("+-0.").replace(".", "").split("e")[0].split("E")[0]) if s else 0
    nontriv = bool(_RUN8.search(s)) or 38 <= sig <= 40 or "e" in s or "E" in s or (exp[0] != "ok" and len(s) > 0)
    if resp.kind == "P":
        return "viol", op + ".panic", True, "no panic"
    if op == "str2dec":
        rv = raw_value(s)
        if s == "":
            want = "E Empty"
            ok = resp.raw == want
        elif rv is None or rv == "huge":
            want = "E <any but Empty>"
            ok = resp.kind == "E" and resp.raw != "E Empty"
        else:
            # doc-hidden kernel: it may reject what from_str rejects, but a
            # returned pair must be the exact value (a huge exponent may be
            # saturated, it only has to stay huge with the right sign)
            want = "R %d %d (exponent may saturate beyond +-10^6), or E if from_str must reject" % rv
            if resp.kind == "R":
                c, e = int(resp.f[0]), int(resp.f[1])
                if abs(rv[1]) <= 10 ** 6:
                    ok = c == rv[0] and e == rv[1]
                else:
                    ok = c == rv[0] and abs(e) > 10 ** 6 and (e > 0) == (rv[1] > 0)
            else:
                ok = resp.kind == "E" and resp.raw != "E Empty" and exp[0] != "ok"
        return ("ok" if ok else "viol"), "str2dec." + exp[0], nontriv, want
    if exp[0] == "empty":
        want = "E Empty"
        ok = resp.raw == want
    elif exp[0] == "ok":
        want = "V %d %d" % (exp[1], exp[2])
        ok = resp.raw == want
    else:
        want = "E <any but Empty> (%s)" % exp[0]
        ok = resp.kind == "E" and resp.raw != "E Empty"
    return ("ok" if ok else "viol"), "%s.%s" % (op, exp[0] if exp[0] != "toolarge" else "toolarge." + exp[1]), nontriv, want


HOSTILE = ["0", "1", "5", "9", ".", "e", "E", "+", "-", "_", "x", " ", "\0", "/", ":", "٠", "٩", "°",
           "¹", "ர", "ힹ", "é", "\t", "\n", "٣", "०", "１", "a", "f", ",", "'",
           "ü", "½", "ÿ", "º", "¿", "þ", "\uffff", "\U0010ffff", "￿", "¼"]


def digits(rng, n, first_nonzero=False):
    if n == 0:
        return ""
    s = "".join(rng.choice("0123456789") for _ in range(n))
    if first_nonzero and s[0] == "0":
        s = rng.choice("123456789") + s[1:]
    return s


def grammar_literal(rng):
    sign = rng.choice(("", "", "+", "-"))
    ni = rng.choice((0, 1, 2, 7, 8, 9, 15, 16, 17, 20, 24, 30, 38, 39, 40, 45, rng.randrange(0, 46)))
    nf = rng.choice((0, 0, 1, 2, 7, 8, 9, 16, 17, 18, 19, 24, 38, 39, 40, 45, rng.randrange(0, 46)))
    ip = digits(rng, ni, first_nonzero=rng.random() < 0.7)
    if rng.random() < 0.2:
        ip = "0" * rng.randrange(1, 12) + ip
    fp = digits(rng, nf)
    if rng.random() < 0.25 and nf > 0:
        z = rng.randrange(1, nf + 1)
        fp = "0" * z + fp[z:]
    if ni == 0 and nf == 0:
        ip = "0"
    body = ip
    if nf > 0 or rng.random() < 0.15:
        body += "." + fp
    k = rng.random()
    if k < 0.5:
        ex = ""
    else:
        ne = rng.choice((1, 1, 2, 2, 3, 5, 8, 12, 25))
        ed = digits(rng, ne)
        if rng.random() < 0.5:
            # keep the exponent small but written long
            v = rng.randrange(0, 60)
            ed = str(v).rjust(ne, "0")[-ne:] if ne >= len(str(v)) else str(v)
        if rng.random() < 0.5 and nf > 18:
            ed = str(nf - rng.randrange(0, 19))
            ex = rng.choice("eE") + rng.choice(("", "+")) + ed
        else:
            ex = rng.choice("eE") + rng.choice(("", "+", "-")) + ed
    return sign + body + ex


def mutate(rng, s):
    k = rng.randrange(5)
    pos = rng.randrange(0, len(s) + 1)
    ch = rng.choice(HOSTILE)
    if k == 0:
        return s[:pos] + ch + s[pos:]
    if k == 1 and s:
        pos = min(pos, len(s) - 1)
        return s[:pos] + ch + s[pos + 1:]
    if k == 2 and s:
        pos = min(pos, len(s) - 1)
        return s[:pos] + s[pos + 1:]
    if k == 3:
        return s + ch
    return ch + s


def split_forms(ds, rng, exps=True):
    """Write the digit string `ds` with the point at several positions (+ compensating exponent)."""
    out = [ds, "-" + ds, "+" + ds]
    n = len(ds)
    for pos in range(0, n + 1):
        if rng.random() < 0.35 or pos in (0, 1, n - 1, n, 8, 16):
            a, b = ds[:pos], ds[pos:]
            lit = (a or rng.choice(("", "0"))) + "." + b
            out.append(lit)
            if not a and exps:
                # leading fraction zeros, compensated by the exponent
                for z in (1, 2, rng.randrange(3, 20)):
                    out.append("%s.%s%se%d" % (rng.choice(("", "0", "000")), "0" * z, b, len(b) + z))
            if exps and b:
                out.append(lit + "e" + str(len(b)))
                out.append("-" + lit + "E+" + str(len(b)).rjust(rng.randrange(1, 6), "0"))
                if len(b) > 1:
                    out.append(lit + "e" + str(len(b) - 1))
    return out


def constructed(rng):
    out = []
    near = ["", "1e", "1e+", "1e-", "1E", ".", "0.", "0e5", "1e005", "--1", "1..2", " 1", "1 ", "+", "-", "+.", "-.e1", ".e1",
            "e1", "1e1e1", "1.2.3", "0x1f", "1_000", "١٢٣", "1e१", "12/4", "12:4", "1e+-1", "+-1", "1.e", "1.e5", "1.5e", "00",
            "000.000", "-0", "+0.0e-0", "0e-18", "0e-19", "0.0e99", "0e39", "0e99999999999999999999", "1e-99999999999999999999",
            "1e99999999999999999999", "1e16777216", "1e16777215", "1e167772160", "1e256", "1.5e257", "-42E+256", "1e38", "1e39",
            "0.1e39", "0.01e40", "1e-18", "1e-19", "0.0000000000000000001", "0.0000000000000000001e1", "NaN", "inf", "∞", "1\u0000",
            "\u00001", "1e5\u0000", "1.5\n", "१.५", "1e+005", "1e-005", "12.5e-003", "0.0000000000000000000000000000000000000001e30",
            ".00000000000000000000000000000000000000001e41", "0.1234567890123456789e1", "-7.0000000000000000001E19",
            ".12345678901234567890123456789012345678e38", "440282366920938463463374607431768211456",
            "85070591730234615865843651857942052.8639e-1"]
    for s in near:
        for op in ("parse", "tryfrom_str", "tryfrom_string", "str2dec"):
            out.append("%s %s" % (op, E.hexs(s)))
    # coefficient * 10^exponent exactly at the i128 boundary: floor(M / 10^k) + {-1, 0, 1, 2} with exponent k,
    # also written with a fraction point inside the digits
    for k in range(1, 39):
        for d in (-1, 0, 1, 2):
            c = M // P10[k] + d
            if c <= 0:
                continue
            cs = str(c)
            forms = ["%se%d" % (cs, k), "-%sE+%d" % (cs, k), "%s.e%d" % (cs, k)]
            for cut in range(1, len(cs)):
                if rng.random() < 0.3:
                    forms.append("%s.%se%d" % (cs[:cut], cs[cut:], k + len(cs) - cut))
            for lit in forms:
                out.append("%s %s" % (rng.choice(OPS), E.hexs(lit)))
    # boundary digit strings
    bases = []
    for d in range(-3, 4):
        bases += [10 ** 38 + d, (1 << 127) + d, (1 << 128) + d, 10 ** 39 + d, (1 << 127) - 1 + d, 2 * 10 ** 38 + d]
    for k in (1, 2):
        for _ in range(25):
            bases.append(k * (1 << 128) + rng.randrange(10 ** 38, 1 << 127))      # wrap-back zone
        bases.append(k * (1 << 128) + 10 ** 38)
        bases.append(k * (1 << 128) + (1 << 127) - 1)
    for k in (3, 5, 29, 293):
        bases.append(k * (1 << 128) + rng.randrange(10 ** 38, 1 << 127))
    for _ in range(20):
        bases.append(rng.randrange(1 << 256, 1 << 257))
        bases.append((1 << 256) + rng.randrange(10 ** 38, 1 << 127))
    for v in bases:
        for lit in split_forms(str(v), rng):
            out.append("%s %s" % (rng.choice(OPS), E.hexs(lit)))
    # 8-lane attacks: 8..24 digits with one hostile byte at every lane
    for n in (8, 9, 15, 16, 17, 23, 24, 25):
        for pos in range(n):
            for ch in ("/", ":", "°", "¹", "٠", " ", "\0", "e", ".", "-", "_", "ü", "½", "ÿ", "º", "\uffff"):
                ds = digits(rng, n, True)
                lit = ds[:pos] + ch + ds[pos + 1:]
                out.append("%s %s" % (rng.choice(OPS), E.hexs(lit)))
                out.append("%s %s" % (rng.choice(OPS), E.hexs("0." + lit)))
    # systematic SWAR attack: every non-digit ASCII byte (and a few multi-byte characters) substituted at every lane
    # of an 8-digit block of zeros / nines / mixed digits, in the integer part, after the sign and after the point
    singles = [chr(b) for b in range(0x00, 0x80) if not (0x30 <= b <= 0x39)] + ["а", "ü", "°", "\u0660"]
    for base in ("00000000", "99999999", "12345678", "0000000000000000"):
        for lane in range(len(base)):
            for ch in singles:
                body = base[:lane] + ch + base[lane + 1:]
                k = rng.randrange(4)
                lit = (body + "5", "-" + body + "12", "0." + body + "7", body + body[::-1] + "1")[k]
                out.append("%s %s" % (rng.choice(OPS), E.hexs(lit)))
    # whole 8-byte blocks (and 7 / 9 / 16 bytes) of one non-digit byte, or of bytes that share the low nibble of a digit
    # ('0' = 0x30: space, NUL, '@', 'P', 'p', ...; '9' = 0x39: ')', 'I', 'y', ...), in front of / inside / after the digits
    # and after the point: a chunk test that masks the high nibble away accepts them
    for ch in [chr(b) for b in range(0x00, 0x80) if not (0x30 <= b <= 0x39)] + ["\u00a0", "\u0660", "\u00b0"]:
        for n in (8, 8, 7, 9, 16):
            blk = ch * n
            k = rng.randrange(6)
            lit = (blk + "12", "0." + blk + "5", "1" + blk, blk, "-" + blk + "7", "12345678" + blk + "12345678")[k]
            out.append("%s %s" % (rng.choice(OPS), E.hexs(lit)))
    for _ in range(300):
        nib = rng.choice("0123456789")
        blk = "".join(chr((rng.choice((0x0, 0x1, 0x2, 0x4, 0x5, 0x6, 0x7)) << 4) | (ord(nib) & 0xF)) for _ in range(8))
        k = rng.randrange(5)
        lit = (blk + "12", "0." + blk + "5", "7" + blk, "0 0 0 0 7", "12345678" + blk)[k]
        out.append("%s %s" % (rng.choice(OPS), E.hexs(lit)))
    # every continuation-byte value 0x80..0xBF in 2-, 3- and 4-byte UTF-8 characters, at every lane of a digit block
    # (byte tricks that classify a byte by a few of its bits accept some of them as digits)
    for b in range(0x80, 0xC0):
        chars = []
        for raw in (bytes((rng.choice((0xC2, 0xC3, 0xDF)), b)), bytes((0xE1, b, b)), bytes((0xF1, b, b, b)),
                    bytes((rng.choice((0xF1, 0xF2, 0xF3)), b, rng.randrange(0x80, 0xC0), b))):
            try:
                chars.append(raw.decode("utf-8"))
            except UnicodeDecodeError:
                pass
        for ch in chars:
            n = len(ch.encode())
            lane = rng.randrange(0, 9 - n)
            blk = "12345678"
            body = blk[:lane] + ch + blk[lane + n:]
            k = rng.randrange(4)
            lit = (body, "1234" + ch, "0." + body + "5", "9" * 8 + body)[k]
            out.append("%s %s" % (rng.choice(OPS), E.hexs(lit)))
    # exponents that wrap a 32- or 64-bit accumulator back into the valid range: k * 2^w + small
    for w in (32, 63, 64, 128):
        for k in (1, 2, 10, 1 << 20):
            for small in (-40, -19, -18, -1, 0, 1, 2, 17, 18, 19, 38, 40):
                e = k * (1 << w) + small
                for lead in ("1", "25", "0.5", "123.456", "0"):
                    sg = rng.choice(("", "-", "+"))
                    out.append("parse %s" % E.hexs("%se%s%d" % (lead, sg, e)))
    # ... and exponents within 20 of 2^31 / 2^63 / 2^64 behind fractions of every length 0..19 (the fraction length is
    # subtracted from / added to the exponent: isize arithmetic at its ends)
    for w in (31, 63, 64):
        for small in range(-20, 3):
            for nf in (0, 1, 8, 9, 10, 17, 18, 19, -small if 0 < -small <= 19 else 2):
                frac = ("0" * (nf - 1) + "1") if nf else ""
                lead = rng.choice(("1", "0", "7")) + ("." + frac if nf else "")
                for sg in ("-", "+", ""):
                    out.append("parse %s" % E.hexs("%se%s%d" % (lead, sg, (1 << w) + small)))
    # valid literals of 250..1200 bytes (zeros are free: leading zeros, fraction zeros compensated by the exponent, zeros
    # in front of the exponent's digits) through EVERY entry point (from_str, TryFrom<&str>, TryFrom<String>, str_to_dec)
    for n in (250, 254, 255, 256, 257, 300, 511, 512, 513, 1024, 1200):
        body = rng.choice(("1.50", "17", "0.125", "-3.5", "+42"))
        sign = body[0] if body[0] in "+-" else ""
        digs = body.lstrip("+-")
        lits = [sign + "0" * (n - len(body)) + digs,
                sign + digs + ("" if "." in digs else ".") + "0" * 5 + "e" + "0" * (n - len(body) - 8) + "0",
                sign + "0." + "0" * (n - 30) + "25e" + str(n - 30 + 1),
                "0" * n, "0." + "0" * (n - 2), sign + digs + "e-" + "0" * (n - len(body) - 3) + "1" if "." not in digs else sign + digs + "e+" + "0" * (n - len(body) - 3) + "1"]
        for lit in lits:
            for op in OPS:
                out.append("%s %s" % (op, E.hexs(lit)))
    # lengths around chunk boundaries, pure digits and fraction-only
    for n in list(range(0, 12)) + [15, 16, 17, 23, 24, 25, 31, 32, 33, 38, 39, 40, 41, 47, 48, 80]:
        ds = digits(rng, n, True)
        for lit in (ds, "." + ds, ds + ".", "0." + ds, ds + "e0", ds + "." + ds):
            out.append("%s %s" % (rng.choice(OPS), E.hexs(lit)))
    # saturating exponents
    for ne in (7, 8, 9, 10, 19, 20, 25, 40):
        for sg in ("", "-", "+"):
            for lead in ("1", "0", "0.0", "123.456"):
                out.append("parse %s" % E.hexs("%se%s%s" % (lead, sg, digits(rng, ne, True))))
    return out


_CON = None


def huge_literals(rng):
    """Multi-megabyte literals: zero runs whose length is compensated by an 8-digit exponent (exponent
    accumulation beyond 2^24), and plain long digit strings."""
    out = []
    for z, e, tail in ((16777215, 20000000, "1"), (19999999, 20000000, "125"), (16777216, 16777216, "5"),
                       (16777300, 16777290, "123")):
        out.append("0.%s%se%d" % ("0" * z, tail, e))
    out.append("1" + "0" * 3000000)
    out.append("0." + "0" * 3000000 + "1")
    return ["parse " + E.hexs(l) for l in out]


def gen(rng, tier, shard, batch):
    global _CON
    reqs = []
    if batch == 0:
        if _CON is None:
            _CON = constructed(random.Random(20260106))
        reqs += _CON[shard::E.NCPU]
        if shard == 0:
            reqs += huge_literals(rng)
    for _ in range(N_RANDOM[tier]):
        s = grammar_literal(rng)
        k = rng.random()
        if k < 0.35:
            for _ in range(rng.randrange(1, 3)):
                s = mutate(rng, s)
        elif k < 0.45:
            # digit strings near the limits
            v = rng.choice((10 ** 38, 1 << 127, 1 << 128, (1 << 128) + 10 ** 38, 2 * (1 << 128) + 10 ** 38)) + rng.randrange(-10 ** 6, 10 ** 30)
            s = rng.choice(split_forms(str(abs(v)), rng))
        try:
            s.encode("utf-8")
        except UnicodeEncodeError:
            continue
        reqs.append("%s %s" % (rng.choice(OPS), E.hexs(s)))
    return reqs


# ---------------------------------------------------------------------------
# memory-safety layers: the same kind of strings under ASan and Miri

def sanitizer_requests(rng, n):
    reqs = [r for r in constructed(random.Random(20260106))]
    rng.shuffle(reqs)
    reqs = reqs[:n // 2]
    while len(reqs) < n:
        s = grammar_literal(rng)
        if rng.random() < 0.5:
            s = mutate(rng, s)
        try:
            s.encode("utf-8")
        except UnicodeEncodeError:
            continue
        reqs.append("%s %s" % (rng.choice(OPS), E.hexs(s)))
    return reqs


def run_tool(name, cmd, env, reqs, wdir, timeout):
    return E.run_tool(sys.modules[__name__], name, cmd, env, reqs, wdir, timeout)


def main(tier, seed):
    t0 = time.time()
    mod = sys.modules[__name__]
    code, ev = E.run_property(mod, tier, seed)
    tools = []
    rng = random.Random(seed * 7919 + 3)
    wdir = B.workdir(ID)
    # AddressSanitizer (nightly)
    try:
        asan = B.build("release", (), kind="asan")   # what users ship: no debug_assert in front of the read
        env = dict(os.environ)
        env["ASAN_OPTIONS"] = "halt_on_error=1:abort_on_error=0:detect_leaks=0:exitcode=77"
        n = 20000 if tier == "quick" else 200000
        tools.append(run_tool("asan", [asan], env, sanitizer_requests(rng, n), wdir, 600))
    except B.BuildError as e:
        tools.append({"tool": "asan", "status": "inconclusive", "why": "build failed: " + str(e)[-300:]})
    # Miri
    cmd, env = B.miri_cmd((), release=True)
    env["MIRIFLAGS"] = "-Zmiri-disable-isolation"
    n_miri = 300 if tier == "quick" else 2000
    if tier == "quick":
        tools.append(run_tool("miri", cmd + ["--"], env, sanitizer_requests(rng, n_miri), wdir, 900))
    else:
        # sharded: 16 processes x n_miri strings
        import concurrent.futures
        with concurrent.futures.ThreadPoolExecutor(E.NCPU) as ex:
            futs = []
            for i in range(E.NCPU):
                r = random.Random(seed * 104729 + i)
                futs.append(ex.submit(run_tool, "miri%d" % i, cmd + ["--"], env, sanitizer_requests(r, n_miri), wdir, 3000))
            tools += [f.result() for f in futs]
    # valgrind memcheck on the plain release binary (what users ship, no instrumentation in the build)
    rel = B.build("release", ())
    tools.append(run_tool("memcheck", ["valgrind", "--error-exitcode=78", "-q", rel], dict(os.environ),
                          sanitizer_requests(rng, 10000 if tier == "quick" else 100000), wdir, 3000))
    code = E.fold_tool_runs(ID, code, ev, tools, wdir, tier, seed)
    ev["wall_s"] = round(time.time() - t0, 2)
    E.write_evidence(ID, ev)
    return code
