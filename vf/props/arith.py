"""Reference semantics of the multiplicative operations (C02, C03, C04, C10)
written from the property statements, and the generic judge for them."""

from .. import engine as E
from .. import findings as F
from ..oracle import (M, P10, fits, in_i128, normalize, round_ratio, trunc_div,
                      value_eq)
from . import common as C


def is_one(c, s):
    return c == P10[s]


# Each expected_* returns a spec understood by judge():
#   ('exact', c, s)        value with exactly this coefficient and scale
#   ('value', c, s, smax)  this numeric value, any scale <= smax
#   ('signal',)            panic (operator / rounded op) or None (checked op)
#   ('dc', spec)           don't care between `spec` and a signal
#   ('dcany',)             coefficient -2^127: outcome not constrained
#   ('kf', id, spec)       known finding: observed must match `spec`

def expected_mul(op, l, r, mode):
    a, p, lt = l
    b, q, rt = r
    if lt is None and rt is None:
        if a == 0 or b == 0:
            return ("value", 0, 0, 18)
        if is_one(b, q):
            return ("value", a, p, 18)
        if is_one(a, p):
            return ("value", b, q, 18)
        if p + q <= 18:
            c = a * b
            f = fits(c)
            if f == "fit":
                return ("exact", c, p + q)
            return ("dcany",) if f == "edge" else ("signal",)
        if op == "cmul":
            return ("signal",)
        c = round_ratio(a * b, P10[p + q - 18], mode)
        f = fits(c)
        if f == "fit":
            if c == 0:
                return ("value", 0, 0, 18)
            return ("exact", c, 18)
        return ("dcany",) if f == "edge" else ("signal",)
    # Decimal x int: exact with the Decimal's scale
    c = a * b
    s = p if lt is None else q
    f = fits(c)
    if f == "fit":
        return ("exact", c, s)
    return ("dcany",) if f == "edge" else ("signal",)


def expected_div(op, l, r, mode):
    a, p, lt = l
    b, q, rt = r
    if b == 0:
        return ("signal",)
    if a == 0:
        return ("exact", 0, 0)
    if is_one(b, q):
        return ("exact", a, p)
    e = 18 + q - p
    if e >= 0:
        c = round_ratio(a * P10[e], b, mode)
    else:
        c = round_ratio(a, b * P10[-e], mode)
    f = fits(c)
    if f == "fit":
        return ("exact",) + normalize(c, 18)
    return ("dcany",) if f == "edge" else ("signal",)


def single_rounded(a, p, b, q, n, mode):
    e = n + q - p
    if e >= 0:
        return round_ratio(a * P10[e], b, mode)
    return round_ratio(a, b * P10[-e], mode)


def expected_divr(l, r, n, mode):
    a, p, lt = l
    b, q, rt = r
    if n > 18:
        if lt is not None and rt is not None and F.is_open("KF-C04-int-int-nfrac"):
            # known finding: int/int does not reject n > 18
            if b != 0 and a == 0:
                return ("kf", "KF-C04-int-int-nfrac", ("value", 0, 0, 255))
            if b != 0 and n <= 38:
                c = single_rounded(a, 0, b, 0, n, mode)
                if in_i128(c):
                    return ("kf", "KF-C04-int-int-nfrac", ("exact", c, n))
        return ("signal",)
    if b == 0:
        return ("signal",)
    if a == 0:
        return ("value", 0, 0, 18)
    c = single_rounded(a, p, b, q, n, mode)
    f = fits(c)
    if f == "fit":
        if c == 0:
            return ("value", 0, 0, n)
        return ("exact", c, n)
    return ("dcany",) if f == "edge" else ("signal",)


def expected_mulr(l, r, n, mode):
    a, p, _ = l
    b, q, _ = r
    if n > 18:
        return ("signal",)
    if a == 0 or b == 0:
        return ("value", 0, 0, 18)
    if n >= p + q:
        c = a * b
        s = p + q
    else:
        c = round_ratio(a * b, P10[p + q - n], mode)
        s = n
    f = fits(c)
    if f == "fit":
        if c == 0:
            return ("value", 0, 0, s)
        return ("exact", c, s)
    return ("dcany",) if f == "edge" else ("signal",)


def expected_quant(l, r, mode):
    a, p, lt = l
    b, q, rt = r
    if b == 0:
        return ("signal",)
    # k = x / quantum rounded to an integer
    k = round_ratio(a * P10[q], b * P10[p], mode)
    v = k * b                     # value v * 10^-q
    vc, vs = normalize(v, q)
    if abs(vc) > M:
        if vc == -(M + 1):
            return ("dcany",)
        return ("signal",)         # no representation at all
    if abs(k) <= M and abs(v) <= M:
        return ("value", v, q, 18)
    return ("dc", ("value", v, q, 18))


def matches(spec, res, checked):
    """Does one observed result satisfy the spec?"""
    kind = spec[0]
    if kind == "exact":
        return res.kind == "V" and int(res.f[0]) == spec[1] and int(res.f[1]) == spec[2]
    if kind == "value":
        if res.kind != "V":
            return False
        c, s = int(res.f[0]), int(res.f[1])
        return s <= spec[3] and s <= 18 and abs(c) <= M and value_eq(c, s, spec[1], spec[2])
    if kind == "signal":
        return res.kind == ("N" if checked else "P")
    if kind == "dc":
        return matches(spec[1], res, checked) or matches(("signal",), res, checked)
    if kind == "dcany":
        return res.kind in ("V", "N" if checked else "P")
    raise ValueError(spec)


def spec_text(spec, checked):
    k = spec[0]
    if k == "exact":
        return "V %d %d" % (spec[1], spec[2])
    if k == "value":
        return "value %d e-%d (scale <= %d)" % (spec[1], spec[2], spec[3])
    if k == "signal":
        return "N" if checked else "P <panic>"
    if k == "dc":
        return spec_text(spec[1], checked) + " or signal"
    if k == "dcany":
        return "<coefficient -2^127: unconstrained>"
    if k == "kf":
        return "signal (known finding %s: observed %s)" % (spec[1], spec_text(spec[2], checked))
    return str(spec)


def judge(spec, form, resp, checked):
    """-> verdict string for the engine."""
    if spec[0] == "kf":
        ok_kf = all(matches(spec[2], r, checked) for _, r in C.results(form, resp))
        if ok_kf:
            return "kf:" + spec[1]
        ok_fixed = all(matches(("signal",), r, checked) for _, r in C.results(form, resp))
        return "ok" if ok_fixed else "viol"
    good = all(matches(spec, r, checked) for _, r in C.results(form, resp))
    if not good:
        return "viol"
    if spec[0] in ("dc", "dcany"):
        return "dc"
    return "ok"


def shape_of(l, r):
    return ("D" if l[2] is None else "i") + ("D" if r[2] is None else "i")


def wide_product(a, b):
    return not in_i128(a * b)
