"""C01 - addition and subtraction are exact or signal overflow."""

import sys

from .. import engine as E
from .. import gen as G
from ..oracle import M, P10, in_i128, OP_INT_TYPES, INT_TYPES
from . import common as C

ID = "C01"
TITLE = "Addition and subtraction are exact or signal overflow"
RULE = ("requests `add|sub|cadd|csub <form> <lhs> <rhs>` over Decimal/Decimal, Decimal/int, int/Decimal "
        "(9 int types, forms vv rv vr rr av ar, `*` = all forms at once); constructed families: for every "
        "scale pair results exactly at +-(2^127-1), +-(2^127-2), 2^127, -2^127, -2^127-1; operands whose "
        "re-scaling alone overflows; int operands at type MIN/MAX; plus seeded random operands. "
        "Non-trivial = scales differ, or |result| or a re-scaled operand within 2 of 2^127")
BUILDS = {"quick": [("dev", ()), ("release", ())],
          "thorough": [("dev", ()), ("release", ()), ("release", ("packed",)), ("o0-nochk", ())]}
MODE_INDEPENDENT = True      # half of every batch runs under a non-default thread rounding mode
ASSUMPTIONS = [C.GRID_NOTE]
REQUIRED_SITES = {}
BUDGET = {"quick": 20, "thorough": 300}
N_RANDOM = {"quick": 12000, "thorough": 40000}

OPS = ("add", "sub", "cadd", "csub")
EDGE = (M, -M, M - 1, -(M - 1), M + 1, -(M + 1), -(M + 2))


def expected(op, l, r):
    a, p, _ = l
    b, q, _ = r
    s = max(p, q)
    A = a * P10[s - p]
    Bv = b * P10[s - q]
    R = A + Bv if op in ("add", "cadd") else A - Bv
    ovf = not (in_i128(A) and in_i128(Bv) and in_i128(R))
    near = s != p or s != q or min(abs(abs(x) - (M + 1)) for x in (A, Bv, R)) <= 2
    return ovf, R, s, near


def check(toks, resp, mode, build):
    op, form = toks[0], toks[1]
    l = C.operand(toks[2])
    r = C.operand(toks[3])
    ovf, R, s, near = expected(op, l, r)
    checked = op[0] == "c"
    if ovf:
        exp = "N" if checked else "P <overflow panic>"
    else:
        exp = "V %d %d" % (R, s)
    verdict = "ok"
    for fname, res in C.results(form, resp):
        if ovf:
            good = (res.kind == "N") if checked else (res.kind == "P")
        else:
            good = res.kind == "V" and int(res.f[0]) == R and int(res.f[1]) == s
        if not good:
            verdict = "viol"
    shape = ("D" if l[2] is None else "i") + ("D" if r[2] is None else "i")
    label = "%s.%s.%s" % (op, shape, "overflow" if ovf else "value")
    return verdict, label, near, exp


def constructed():
    """Deterministic boundary families (independent of the seed)."""
    import random
    rng = random.Random(20260101)
    out = []
    for p in range(19):
        for q in range(19):
            s = max(p, q)
            for R in EDGE:
                for op in ("add", "sub"):
                    if p >= q:
                        b = rng.randrange(-(M // P10[s - q]) // 2, (M // P10[s - q]) // 2 + 1)
                        Bv = b * P10[s - q]
                        a = R - Bv if op == "add" else R + Bv
                    else:
                        a = rng.randrange(-(M // P10[s - p]) // 2, (M // P10[s - p]) // 2 + 1)
                        A = a * P10[s - p]
                        b = R - A if op == "add" else A - R
                    if abs(a) > M or abs(b) > M:
                        continue
                    cop = rng.choice((op, "c" + op))
                    form = "*" if cop[0] != "c" else rng.choice(C.FORMS_4 + ["*"])
                    out.append("%s %s %s %s" % (cop, form, G.fD(a, p), G.fD(b, q)))
            # re-scaling alone overflows, exact result would fit
            if p != q:
                k = abs(p - q)
                big = M // P10[k] + 1 + rng.randrange(0, 5)
                small_scale, big_scale = (p, q) if p < q else (q, p)
                other = -(big * P10[k]) + rng.randrange(-5, 6)
                if abs(other) <= M and big <= M:
                    for cop in ("add", "cadd", "sub", "csub"):
                        x, y = G.fD(big, small_scale), G.fD(other if cop.endswith("add") else -other, big_scale)
                        if rng.random() < 0.5:
                            out.append("%s * %s %s" % (cop, x, y))
                        else:
                            out.append("%s * %s %s" % (cop, y, x))
    # operands at the widths of the primitive types (narrow-type fast paths)
    tb = G.type_boundary_coeffs()
    for c in tb:
        for s in (0, 1, 18):
            for d in (1, -1, c, -c, M, -M, rng.choice(tb)):
                t = rng.choice((s, 0, 18, rng.randrange(0, 19)))
                for op in OPS:
                    out.append("%s * %s %s" % (op, G.fD(c, s), G.fD(d, t)))
    # identical operands (x op x; the driver also runs `&x op &x` with both references to one object)
    for s in range(19):
        for c in (0, 1, -1, 5, P10[s], M, -M, M // 2, M // 2 + 1, rng.randrange(-M, M), G.small_coeff(rng, 60)):
            for op in OPS:
                out.append("%s * %s %s" % (op, G.fD(c, s), G.fD(c, s)))
    # limb carries and borrows: low 64-bit limbs that sum to 2^64 - 1 / 2^64 / 2^64 + 1, low limbs ordered against the
    # high limbs; all-ones / single-bit / empty limbs
    for a, b in G.limb_carry_pairs(rng, 80):
        s = rng.randrange(0, 19)
        for sa, sb in ((1, 1), (1, -1), (-1, 1), (-1, -1)):
            out.append("%s * %s %s" % (rng.choice(OPS), G.fD(sa * a, s), G.fD(sb * b, s)))
    lg = G.limb_grid()
    for a in lg:
        for b in rng.sample(lg, 6):
            s = rng.randrange(0, 19)
            t = rng.choice((s, s, rng.randrange(0, 19)))
            out.append("%s * %s %s" % (rng.choice(OPS), G.fD(a * rng.choice((1, -1)), s), G.fD(b * rng.choice((1, -1)), t)))
    # coefficients at floor(T / 10^k) +- 2 for the maxima T of the primitive types, re-scaled by exactly 10^k
    for v, k in G.type_scaled_thresholds():
        for p in (0, rng.randrange(0, 19 - k)):
            q = p + k
            other = rng.choice((1, -1, 0, rng.randrange(-10 ** 6, 10 ** 6), rng.randrange(-M, M)))
            op = rng.choice(OPS)
            out.append("%s * %s %s" % (op, G.fD(v, p), G.fD(other, q)))
            out.append("%s * %s %s" % (op, G.fD(other, q), G.fD(v, p)))
        if abs(v) < (1 << 63):
            ty = "i64" if abs(v) < (1 << 63) else "i128"
            out.append("%s * %s %s" % (rng.choice(OPS), G.fI(ty, v), G.fD(rng.randrange(-10 ** 6, 10 ** 6), k)))
            out.append("%s * %s %s" % (rng.choice(OPS), G.fD(rng.randrange(-10 ** 6, 10 ** 6), k), G.fI("i128", v)))
    # Decimals at the ends of an integer type's range against that type's -1 / 1 / 2 / ends (T::MIN - 1 natively)
    for dt, it in C.native_width_cases(rng):
        op = rng.choice(OPS)
        out.append("%s * %s %s" % (op, dt, it))
        out.append("%s * %s %s" % (op, it, dt))
    # int operands at the type bounds, both positions, all scales
    for ty in OP_INT_TYPES:
        lo, hi = INT_TYPES[ty]
        for v in (lo, lo + 1, hi, hi - 1, 0, 1):
            for s in (0, 1, 9, 17, 18):
                w = abs(v) * P10[s]
                edge = [M - w, -(M + 1) + w, (M + 1) - w, -M + w, M - w + 1, -(M + 1) + w - 1, (M + 1) - w + 1] if w <= M else [5, -5]
                for c in [0, 1, -1, M, -M] + edge:
                    if abs(c) > M:
                        continue
                    for op in OPS:
                        out.append("%s * %s %s" % (op, G.fD(c, s), G.fI(ty, v)))
                        out.append("%s * %s %s" % (op, G.fI(ty, v), G.fD(c, s)))
    return out


_CONSTRUCTED = None


def gen(rng, tier, shard, batch):
    global _CONSTRUCTED
    reqs = []
    if batch == 0:
        if _CONSTRUCTED is None:
            _CONSTRUCTED = constructed()
        reqs += _CONSTRUCTED[shard::E.NCPU]
        for a, p, b, q in C.small_grid(tier, shard, E.NCPU):
            reqs.append("add vv %s %s" % (G.fD(a, p), G.fD(b, q)))
            reqs.append("csub vv %s %s" % (G.fD(a, p), G.fD(b, q)))
    for _ in range(N_RANDOM[tier]):
        op = rng.choice(OPS)
        ltok, rtok = C.shape_operands(rng)
        if rng.random() < 0.3 and ltok[0] == "D" and rtok[0] == "D":
            # steer towards the overflow boundary: second operand = edge - first
            a, p = E.pD(ltok)
            q = rng.randrange(0, 19)
            s = max(p, q)
            A = a * P10[s - p]
            R = rng.choice(EDGE) + rng.randrange(-1, 2)
            Bv = R - A if op.endswith("add") else A - R
            if Bv % P10[s - q] == 0 and abs(Bv // P10[s - q]) <= M:
                rtok = G.fD(Bv // P10[s - q], q)
        form = C.pick_form(rng, ltok[0] == "D", op[0] != "c")
        reqs.append("%s %s %s %s" % (op, form, ltok, rtok))
    return reqs


main = C.standard_main(sys.modules[__name__])
