"""C04 - mul_rounded, div_rounded and quantize round the exact result once, per mode."""

import random
import sys

from .. import engine as E
from .. import gen as G
from ..oracle import M, P10, MODES, in_i128, OP_INT_TYPES, INT_TYPES
from .. import knuth as K
from . import arith as A
from . import common as C

ID = "C04"
TITLE = "mul_rounded, div_rounded and quantize round the exact result once, per mode"
RULE = ("requests `mulr|divr|quant <form> <lhs> <rhs> [n]` under each of the 8 thread rounding modes; divr and "
        "quant over Decimal/Decimal, Decimal/int, int/Decimal, int/int (9 types, 4 forms); n in 0..=18 plus "
        "19..=255 for the rejection clause; constructed: all scaling branches of the division (dividend digits "
        "==, <, > n + divisor digits; scaled dividend / scaled divisor beyond i128), operands where rounding a "
        "truncated intermediate quotient would flip the result (1.01/2 @0, tiny remainders under directed modes), "
        "exact ties against a divisor*10^shift that overflows i128, mul ties, quantize with quanta 0.05/0.25/1.000/"
        "3/7e-18/huge. Non-trivial = not the equal-scale branch, or tie / within 1 of a tie, or n > 18, or "
        "intermediate beyond i128")
BUILDS = {"quick": [("dev", ()), ("release", ())],
          "thorough": [("dev", ()), ("release", ()), ("release", ("packed",)), ("o0-nochk", ())]}
ASSUMPTIONS = [C.GRID_NOTE]
REQUIRED_SITES = {"round_quot.overflow": 2, "divr.eq": 100, "divr.less.narrow": 100, "divr.less.wide": 100, "divr.greater.fit": 100,
                  "divr.greater.ovf": 50, "mulr.exact": 100, "mulr.narrow": 100, "mulr.wide": 50,
                  "round_quot.tie": 100}
BUDGET = {"quick": 25, "thorough": 300}
N_RANDOM = {"quick": 1500, "thorough": 5000}


def check(toks, resp, mode, build):
    op, form = toks[0], toks[1]
    l = C.operand(toks[2])
    r = C.operand(toks[3])
    n = int(toks[4]) if len(toks) > 4 else 0
    a, p, _ = l
    b, q, _ = r
    nontriv = False
    if op == "mulr":
        spec = A.expected_mulr(l, r, n, mode)
        nontriv = n > 18 or not in_i128(a * b)
        if not nontriv and n < p + q:
            sh = P10[p + q - n]
            rem2 = 2 * (abs(a * b) % sh)
            nontriv = rem2 != 0 and abs(rem2 - sh) <= 2
    elif op == "divr":
        spec = A.expected_divr(l, r, n, mode)
        nontriv = n > 18 or (b != 0 and a != 0 and p != n + q)
    else:
        spec = A.expected_quant(l, r, mode)
        nontriv = b != 0 and a != 0 and (p != q or spec[0] != "value")
    verdict = A.judge(spec, form, resp, False)
    label = "%s.%s.%s" % (op, A.shape_of(l, r), spec[0])
    return verdict, label, nontriv, A.spec_text(spec, False)


def sg(rng, x):
    return x if rng.random() < 0.5 else -x


def constructed(rng):
    out = []

    def add(op, l, r, n=None):
        form = rng.choice(("*", "vv", "rv", "vr", "rr"))
        out.append("%s %s %s %s%s" % (op, form, l, r, "" if n is None else " %d" % n))

    # --- divr: every scaling branch, Decimal/Decimal
    for _ in range(250):
        n = rng.randrange(0, 19)
        q = rng.randrange(0, 19)
        kind = rng.randrange(5)
        if kind == 0:                      # equal: p == n + q
            if n + q > 18:
                continue
            p = n + q
            a, b = G.coeff(rng), G.coeff(rng)
        elif kind == 1:                    # less, narrow
            p = rng.randrange(0, min(18, n + q) + 1)
            a, b = G.small_coeff(rng, 60), G.small_coeff(rng, 60)
        elif kind == 2:                    # less, wide
            p = rng.randrange(0, min(18, max(0, n + q - 8)) + 1)
            a = rng.getrandbits(rng.randrange(100, 127))
            b = rng.getrandbits(rng.randrange(64, 127)) | 1
        elif kind == 3:                    # greater, divisor * 10^shift fits
            if n + q >= 18:
                continue
            p = rng.randrange(n + q + 1, 19)
            sh = p - n - q
            b = rng.getrandbits(rng.randrange(1, 60)) + 1
            # dividend chosen so that truncating a/b first would lose the decision
            t = rng.getrandbits(rng.randrange(1, 50))
            half = b * P10[sh] // 2
            a = t * b * P10[sh] + half + rng.choice((-1, 0, 1, b - 1, 1 - b, b // 2))
        else:                              # greater, divisor * 10^shift overflows
            if n + q >= 18:
                continue
            p = rng.randrange(n + q + 1, 19)
            sh = p - n - q
            lo = M // P10[sh] + 1
            hi = min(M, 2 * M // P10[sh])
            if lo > hi:
                continue
            b = rng.randrange(lo, hi + 1)
            h = P10[sh] // 2
            a = b * h + rng.choice((-1, 0, 0, 1, b // 3))
            if rng.random() < 0.3:
                a = rng.randrange(1, M)
        if a == 0 or b == 0 or abs(a) > M or abs(b) > M:
            continue
        add("divr", G.fD(sg(rng, a), p), G.fD(sg(rng, b), q), n)
    # --- remainders at the widths of the primitive types (a remainder or partial quotient squeezed into a narrower
    #     integer): dividend = t * divisor + half + delta, delta in +-{2^32, 2^63, j * 2^64, 2^96}, divisor-scaled branch
    deltas = [1 << 32, 1 << 63, 1 << 64, 3 << 64, (1 << 64) * 12345, 1 << 96, (1 << 64) - 1, (1 << 64) + 1]
    for _ in range(200):
        n = rng.randrange(0, 17)
        q = rng.randrange(0, 18 - n)
        p = rng.randrange(n + q + 1, 19)
        sh = p - n - q
        if rng.random() < 0.5:
            # divisor * 10^sh fits
            b = rng.getrandbits(rng.randrange(66, 110)) + 1
            if b * P10[sh] > M:
                continue
            dv = b * P10[sh]
            t = rng.getrandbits(rng.randrange(0, 10))
            base = t * dv + dv // 2
        else:
            # divisor * 10^sh overflows: quotient below 1
            lo = M // P10[sh] + 1
            hi = min(M, 2 * M // P10[sh])
            if lo > hi:
                continue
            b = rng.randrange(lo, hi + 1)
            base = b * (P10[sh] // 2)
        for dl in deltas:
            for sgn in (1, -1):
                a = base + sgn * dl
                if 0 < a <= M:
                    add("divr", G.fD(sg(rng, a), p), G.fD(sg(rng, b), q), n)
    # --- the upper 128-bit word of the wide dividend equals the divisor (+-1): quotient ~ 2^128, must signal
    for _ in range(40):
        k = rng.randrange(20, 37)
        y = rng.randrange(1 << 64, min(P10[k] // 2, M) + 1)
        for dy in (-1, 0, 1):
            x = -((-(y + dy) << 128) // P10[k])
            if not 0 < x <= M:
                continue
            # divr: k = n + q - p
            for _try in range(5):
                n = rng.randrange(0, 19)
                q = rng.randrange(0, 19)
                p = n + q - k
                if 0 <= p <= 18:
                    add("divr", G.fD(sg(rng, x), p), G.fD(sg(rng, y), q), n)
                    break
        # mulr: product's upper word equals 10^sh (sh >= 20)
        shm = rng.randrange(20, 37)
        for dd_ in (-1, 0, 1):
            lo_, hi_ = (P10[shm] + dd_) << 128, (P10[shm] + dd_ + 1) << 128
            pr = K.product_in(rng, lo_, hi_)
            if pr:
                for _try in range(5):
                    p = rng.randrange(2, 19)
                    q = rng.randrange(2, 19)
                    n = p + q - shm
                    if 0 <= n <= 18:
                        add("mulr", G.fD(sg(rng, pr[0]), p), G.fD(sg(rng, pr[1]), q), n)
                        break
    # --- 256-bit intermediate whose top 64-bit word is a multiple of the 64-bit divisor and whose next word is smaller
    #     than it (a quotient word that vanishes): the result is far beyond i128 and must be signalled
    for op, l, r, n in K.api_small_divisor_top_word(rng, 60, G.fD):
        add(op, l, r, n)
        if op == "divr" and n == 0 and rng.random() < 0.5:
            add("quant", l, r)
    # --- products whose cut-off digits are a tie (or zero) plus a non-zero multiple of 2^32 / 2^64 / 2^96: "something
    #     non-zero follows" judged from a truncated word; cut of 2..36 digits
    for p_ in range(2, 37):
        for d_ in (5, 0):
            for w_ in (32, 64, 96):
                if (1 << w_) >= P10[p_ - 1]:
                    continue
                j_ = rng.randrange(1, max(2, min(1 << 20, P10[p_ - 1] >> w_)))
                q_ = rng.getrandbits(rng.randrange(1, 30))
                x_ = q_ * P10[p_] + d_ * P10[p_ - 1] + (j_ << w_)
                y_ = rng.choice((1, 1, 2, 3, 7))
                if x_ % y_ or x_ // y_ > M:
                    y_ = 1
                if x_ > M:
                    continue
                for _try in range(30):
                    a_, b_ = rng.randrange(0, 19), rng.randrange(0, 19)
                    n_ = a_ + b_ - p_
                    if 0 <= n_ <= 18:
                        sg_ = rng.choice((1, -1))
                        add("mulr", G.fD(sg_ * (x_ // y_), a_), G.fD(y_, b_), n_)
                        add("mulr", G.fD(y_, b_), G.fD(-sg_ * (x_ // y_), a_), n_)
                        break
    #     both factors next to the integer square root of a primitive-type maximum
    import math
    for T in G.TYPE_MAXIMA:
        r_ = math.isqrt(T)
        for d1 in (0, 1, -1, 2, rng.randrange(-10 ** 11, 10 ** 11), rng.randrange(-10 ** 11, 10 ** 11), rng.randrange(-10 ** 5, 10 ** 5)):
            d2 = rng.choice((0, 1, -1, d1, rng.randrange(-10 ** 11, 10 ** 11)))
            a_, b_ = r_ + d1, r_ + d2
            if 0 < a_ <= M and 0 < b_ <= M:
                add("mulr", G.fD(a_ * rng.choice((1, -1)), rng.randrange(0, 19)), G.fD(b_ * rng.choice((1, -1)), rng.randrange(0, 19)), rng.randrange(0, 19))
    #     products just below a primitive-type maximum whose cut-off digits are all nines / zero / one / half
    for x_, a_, y_, b_, n_ in C.products_near_type_maxima(rng):
        add("mulr", G.fD(x_ * rng.choice((1, -1)), a_), G.fD(y_ * rng.choice((1, -1)), b_), n_)
    #     ... and the same for products beyond i128 (the wide kernel), see common.wide_tie_word_products
    for x_, a_, y_, b_, n_ in C.wide_tie_word_products(rng):
        sg_ = rng.choice((1, -1))
        add("mulr", G.fD(sg_ * x_, a_), G.fD(y_, b_), n_)
        add("mulr", G.fD(y_, b_), G.fD(-sg_ * x_, a_), n_)
    # --- quotient-digit estimate of 2^64 + 1 in the 256/128-bit division (vf/knuth.py)
    for r_ in K.est_gt_b_requests(rng, 25, G.fD)[0]:
        t_ = r_.split()
        if t_[0] in ("mulr", "divr"):
            add(t_[0], t_[2], t_[3], int(t_[4]))
    # --- operands at floor(T / 10^k) +- 2 for every primitive-type maximum T where k is the scaling the op applies
    for v, k in G.type_scaled_thresholds():
        for _try in range(3):
            n = rng.randrange(0, 19)
            q = rng.randrange(0, 19)
            p = n + q - k                       # dividend scaled by 10^k
            if 0 <= p <= 18:
                add("divr", G.fD(v, p), G.fD(rng.choice((1, -1, 3, 7, rng.randrange(1, 10 ** 9))), q), n)
                break
        for _try in range(3):
            n = rng.randrange(0, 19)
            p = rng.randrange(0, 19)
            q = p - n - k                       # divisor scaled by 10^k
            if 0 <= q <= 18:
                add("divr", G.fD(rng.randrange(-M, M), p), G.fD(v, q), n)
                break
    # --- the classic double-rounding witnesses, all shapes
    for n in range(0, 4):
        for a, p, bi in ((101, 2, 2), (-101, 2, 2), (1001, 3, 2), (5000001, 6, 10), (1, 18, 3), (-1, 18, 7),
                         (2500000000000000001, 18, 5), (149, 2, 3), (35, 1, 7)):
            if p <= n:
                continue
            add("divr", G.fD(a, p), G.fD(bi, 0), n)
            add("divr", G.fD(a, p), "u8:%d" % bi, n)
            add("divr", G.fD(a, p), "i64:%d" % -bi, n)
            add("quant", G.fD(a, p), "u16:%d" % bi)
            add("quant", G.fD(a, p), G.fD(bi, 0))
    # --- exact ties: a / b = t + 1/2 at n digits
    for _ in range(150):
        n = rng.randrange(0, 19)
        p = rng.randrange(0, 19)
        q = rng.randrange(0, 19)
        e = n + q - p
        c = rng.getrandbits(rng.randrange(1, 60)) | 1
        t = rng.getrandbits(rng.randrange(1, 40))
        if e >= 0:
            # a*10^e / b = t + 1/2  with b = 2^(e+1)*c, a = c*(2t+1)*... (5^e odd)
            b = (1 << (e + 1)) * c
            a = c * (2 * t + 1)
        else:
            # a / (b*10^-e) = t + 1/2  -> a = (2t+1) * b * 10^-e / 2
            b = c
            a = (2 * t + 1) * c * (P10[-e] // 2)
        if abs(a) > M or abs(b) > M:
            continue
        add("divr", G.fD(sg(rng, a), p), G.fD(sg(rng, b), q), n)
    # --- rejection clause and zero operands, every shape
    shapes = []
    for ty in OP_INT_TYPES:
        lo, hi = INT_TYPES[ty]
        vs = [v for v in (lo, hi, 0, 1, 3, 7, -3) if lo <= v <= hi]
        for v in vs:
            for w in vs:
                n = rng.choice((0, 1, 5, 17, 18, 19, 20, 25, 38, 39, 100, 255))
                add("divr", G.fI(ty, v), G.fI(ty, w), n)
                add("quant", G.fI(ty, v), G.fI(ty, w))
            for s in (0, 3, 18):
                c = rng.choice((0, 1, -7, M, 10 ** 20 + 1, 5 * P10[s]))
                n = rng.choice((0, 2, 18, 19, 38, 39, 200))
                add("divr", G.fD(c, s), G.fI(ty, v), n)
                add("divr", G.fI(ty, v), G.fD(c, s), n)
                add("quant", G.fD(c, s), G.fI(ty, v))
                add("quant", G.fI(ty, v), G.fD(c, s))
    for s in range(19):
        for n in (0, 18, 19, 255):
            add("divr", G.fD(0, s), G.fD(rng.randrange(1, 100), rng.randrange(0, 19)), n)
            add("divr", G.fD(rng.randrange(1, 100), rng.randrange(0, 19)), G.fD(0, s), n)
            add("mulr", G.fD(0, s), G.fD(rng.randrange(-M, M), rng.randrange(0, 19)), n)
    # --- mulr: ties, wide, exact-with-fewer-digits
    for _ in range(250):
        n = rng.randrange(0, 19)
        p = rng.randrange(0, 19)
        q = rng.randrange(0, 19)
        if p + q <= n:
            a, b = G.small_coeff(rng, 63), G.small_coeff(rng, 63)
        else:
            sh = p + q - n
            i = rng.randrange(0, sh)
            j = sh - 1 - i
            u = rng.getrandbits(rng.randrange(1, 70)) | 1
            v = rng.getrandbits(rng.randrange(1, 70)) | 1
            a, b = 5 * P10[i] * u, P10[j] * v
            if rng.random() < 0.4:
                a += rng.choice((-1, 1))
            if rng.random() < 0.3:
                a = rng.getrandbits(rng.randrange(90, 127))
                b = rng.getrandbits(rng.randrange(40, 127))
        if abs(a) > M or abs(b) > M:
            continue
        add("mulr", G.fD(sg(rng, a), p), G.fD(sg(rng, b), q), n)
    for n in (19, 20, 100, 255):
        add("mulr", G.fD(15, 1), G.fD(25, 1), n)
    # floor quotient == 2^127-1 with non-zero remainder (an upward mode must signal, never wrap)
    for _ in range(40):
        sh = rng.randrange(1, 19)
        for _try in range(200):
            a = rng.randrange(P10[sh] + 1, 4 * P10[sh])
            b = -((-M * P10[sh]) // a)
            rem = a * b - M * P10[sh]
            if b <= M and 0 <= rem < P10[sh]:
                break
        else:
            continue
        p = rng.randrange(sh, 19)
        q = rng.randrange(0, 19)
        n = p + q - sh
        if 0 <= n <= 18:
            add("mulr", G.fD(a, p), G.fD(b, q), n)
            add("mulr", G.fD(-a, p), G.fD(b, q), n)
    for k in range(1, 19):
        for beta in range(2, 10):
            need = (-beta * M) % 10
            if 0 < need < beta:
                a = (beta * M + need) // 10
                b = beta * P10[k - 1]
                for q in range(0, 19):
                    for n in range(0, 19):
                        p = n + q - k
                        if 0 <= p <= 18 and rng.random() < 0.1:
                            add("divr", G.fD(a, p), G.fD(b, q), n)
                            add("divr", G.fD(-a, p), G.fD(-b, q), n)
    # operands at the widths of the primitive types (narrow-type fast paths), one in every representation
    for c in G.type_boundary_coeffs():
        for s in (0, 2, 18):
            n = rng.randrange(0, 19)
            for b, q in ((1, 0), (-1, 0), (10, 1), (100, 2), (P10[18], 18), (-4, 0), (3, 0)):
                add("divr", G.fD(c, s), G.fD(b, q), n)
                add("mulr", G.fD(c, s), G.fD(b, q), n)
                add("quant", G.fD(c, s), G.fD(b, q))
    for s in range(19):
        for t in range(0, 19, 3):
            for n in (0, t, 18):
                x = rng.randrange(-10 ** 12, 10 ** 12)
                add("mulr", G.fD(x, t), G.fD(P10[s], s), n)
                add("mulr", G.fD(P10[s], s), G.fD(x, t), n)
        for w in G.trunc_twins(rng, rng.choice((P10[s], -P10[s], 0)))[::3]:
            # agrees with one / zero in its low 32 / 64 / 96 bits only
            xs = rng.choice((3, -7, rng.randrange(-10 ** 6, 10 ** 6) or 1))
            tt = rng.randrange(0, 19)
            nn = rng.randrange(0, 19)
            add("mulr", G.fD(xs, tt), G.fD(w, s), nn)
            add("divr", G.fD(xs, tt), G.fD(w, s), nn)
            add("divr", G.fD(w, s), G.fD(xs, tt), nn)
            add("quant", G.fD(w, s), G.fD(xs, tt))
    # --- quantize
    quanta = [(5, 2), (25, 2), (1000, 3), (3, 0), (7, 18), (1, 18), (M, 0), (M // 3, 5), (10 ** 18, 18),
              (10 ** 17, 18), (2, 0), (-5, 1), (15, 0), (125, 1), (1, 0), (P10[18] * 7, 18)]
    for qc, qs in quanta:
        for _ in range(12):
            a, p = G.dec(rng)
            if rng.random() < 0.5:
                # exact half multiples of the quantum
                t = rng.getrandbits(rng.randrange(1, 30))
                num = (2 * t + 1) * qc
                if num % 2 == 0:
                    a, p = num // 2, qs
                elif qs < 18:
                    a, p = num * 5, qs + 1
            if abs(a) > M:
                continue
            add("quant", G.fD(a, p), G.fD(qc, qs))
    return out


_CON = None


def gen(rng, tier, shard, batch):
    global _CON
    reqs = []
    mine = []
    if batch == 0:
        if _CON is None:
            _CON = constructed(random.Random(20260104))
        mine = _CON[shard::E.NCPU]
    for mode in MODES:
        reqs.append("mode " + mode)
        reqs += mine
        if batch == 0:
            for i, (a, p, b, q) in enumerate(C.small_grid(tier, shard, E.NCPU)):
                n = (0, 1, 2, 17, 18)[i % 5]
                reqs.append("divr vv %s %s %d" % (G.fD(a, p), G.fD(b, q), n))
                if i % 2:
                    reqs.append("mulr vv %s %s %d" % (G.fD(a, p), G.fD(b, q), n))
                else:
                    reqs.append("quant vv %s %s" % (G.fD(a, p), G.fD(b, q)))
        for _ in range(N_RANDOM[tier]):
            k = rng.random()
            n = rng.randrange(0, 19)
            if rng.random() < 0.04:
                n = rng.randrange(19, 256)
            if k < 0.25:
                a, p = G.dec(rng)
                b, q = G.dec(rng)
                if rng.random() < 0.5:
                    a, b = G.small_coeff(rng, 90), G.small_coeff(rng, 90)
                form = C.pick_form(rng, True, False)
                reqs.append("mulr %s %s %s %d" % (form, G.fD(a, p), G.fD(b, q), n))
                continue
            op = "divr" if k < 0.75 else "quant"
            shape = rng.choice(("DD", "DD", "Di", "iD", "ii"))
            if shape == "ii":
                ty = G.int_type(rng)
                ltok, rtok = G.fI(ty, G.int_of(rng, ty)), G.fI(ty, G.int_of(rng, ty))
            else:
                ltok, rtok = C.shape_operands(rng, shape)
                if shape == "DD" and rng.random() < 0.4:
                    ltok = G.fD(G.small_coeff(rng, 80), G.scale(rng))
                    rtok = G.fD(G.small_coeff(rng, 50), G.scale(rng))
            form = C.pick_form(rng, True, False)
            if op == "divr":
                reqs.append("divr %s %s %s %d" % (form, ltok, rtok, n))
            else:
                reqs.append("quant %s %s %s" % (form, ltok, rtok))
    return reqs


main = C.standard_main(sys.modules[__name__])
