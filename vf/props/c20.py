"""C20 - results do not depend on the build profile; overflow is never silent."""

import os
import random
import sys
import time

from .. import build as B
from .. import engine as E
from ..oracle import MODES
from . import c01, c02, c03, c04, c05, c06, c07, c08, c09, c10, c11, c12, c13, c14, c15, c16

ID = "C20"
TITLE = "Results do not depend on the build profile; overflow is never silent"
RULE = ("differential monitor: one seeded workload - the union of the boundary families and random generators of "
        "C01-C16 (operators, checked variants, rounded ops, round, parsing, Display, comparisons and live structures, "
        "hashing, rem, formatting, float and integer conversions, unary ops, wide kernels) - is executed by N builds of the same tree (quick: dev, release, "
        "release+packed, opt0 without overflow checks and debug assertions; thorough: the full matrix opt-level {0,3} x "
        "overflow-checks x debug-assertions x packed = 16 builds); the event logs are compared line by line on outcome "
        "class and value (panic messages are not compared) and every log is also judged by the owning property's "
        "oracle. Non-trivial = the owning property's rule (overflow boundary, tie, wide intermediate, ...)")
PROFILES = ["dev", "release", "o0-nochk", "o0-ovf", "o0-dbg", "o3-chk", "o3-ovf", "o3-dbg"]
BUILDS = {"quick": [("dev", ()), ("release", ()), ("release", ("packed",)), ("o0-nochk", ())],
          "thorough": [(p, f) for p in PROFILES for f in ((), ("packed",))]}
REQUIRED_SITES = {}
BUDGET = {"quick": 30, "thorough": 600}
MAX_BATCHES = {"quick": 1, "thorough": 10 ** 6}
OWNERS = [c01, c02, c03, c04, c05, c06, c07, c08, c09, c10, c11, c12, c13, c14, c15, c16]
OWNER_OF = {}
for _m, _ops in ((c01, "add sub cadd csub"), (c02, "mul cmul"), (c03, "div cdiv"), (c04, "mulr divr quant"),
                 (c05, "round cround krnd"), (c06, "parse tryfrom_str tryfrom_string str2dec"),
                 (c07, "tostr strfrom debug"), (c08, "cmpall minmax sort btree"), (c09, "hash hashpair ratio hashset"),
                 (c10, "rem crem"), (c11, "fmt"), (c12, "tof64 tof32"),
                 (c13, "fromf64 fromf32"), (c14, "fromint toint"),
                 (c15, "neg negref abs floor ceil trunc fract magn preds"),
                 (c16, "k_i256 k_shdm k_mulr k_shdr")):
    for _o in _ops.split():
        OWNER_OF[_o] = _m
SKIP_PREFIX = ("nt", "serde", "rk_", "counts")


def check(toks, resp, mode, build):
    owner = OWNER_OF[toks[0]]
    verdict, label, nontriv, expected = owner.check(toks, resp, mode, build)
    if verdict.startswith("kf:"):
        # a known finding of the owning property is not a profile dependence; the
        # line still takes part in the cross-build comparison
        verdict = "dc"
    return verdict, owner.ID + "." + label.split(".")[0], nontriv, expected


def gen(rng, tier, shard, batch):
    """A slice of every owner's workload (their constructed families come with batch 0)."""
    reqs = []
    for owner in OWNERS:
        sub = owner.gen(random.Random(rng.getrandbits(64)), "quick", shard, batch)
        # thin out the random part, keep mode directives in order
        keep = []
        stride = 3 if tier == "quick" else 2
        for i, r in enumerate(sub):
            if r.startswith("mode "):
                keep.append(r)
            elif r.split(" ", 1)[0] in OWNER_OF and (i % stride == shard % stride):
                keep.append(r)
        reqs.append("mode RoundHalfEven")
        reqs += keep
    reqs.append("mode RoundHalfEven")
    return reqs


def normalise(line):
    """Outcome class + value; panic messages and hook traces are not compared."""
    i = line.rfind(" ~")
    if i >= 0:
        line = line[:i]
    if line.startswith("P "):
        return "P"
    if line.startswith("F "):
        parts = []
        for part in line[2:].split("|"):
            name, _, val = part.partition("=")
            parts.append(name + "=" + ("P" if val.startswith("P ") else val))
        return "F " + "|".join(parts)
    return line


def _worker(args):
    tier, seed, shard, bins, deadline = args
    mod = sys.modules[__name__]
    st = E.Stats()
    diffs = []
    n_compared = 0
    wdir = B.workdir(ID)
    batch = 0
    try:
        while True:
            rng = random.Random((seed * 1000003 + shard) * 1009 + batch)
            reqs = gen(rng, tier, shard, batch)
            reqfile = os.path.join(wdir, "s%d.req" % shard)
            open(reqfile, "w").write("\n".join(reqs) + "\n")
            logs = {}
            for bname, binary in bins:
                outfile = os.path.join(wdir, "s%d.%s.out" % (shard, bname))
                p = E.run_probe(binary, reqfile, outfile)
                if p.returncode != 0:
                    st.errors.append("probe %s exited with %d: %s" % (bname, p.returncode, p.stderr[-300:].decode("utf-8", "replace")))
                    continue
                out_lines = open(outfile).read().split("\n")
                if out_lines and out_lines[-1] == "":
                    out_lines.pop()
                logs[bname] = out_lines
                E.judge_batch(mod, reqs, out_lines, bname, st)
            # line-by-line comparison against the first build
            names = list(logs)
            if len(names) >= 2:
                ref = [normalise(l) for l in logs[names[0]]]
                mode = "RoundHalfEven"
                for other in names[1:]:
                    cur = logs[other]
                    if len(cur) != len(ref):
                        st.errors.append("log length differs between %s and %s" % (names[0], other))
                        continue
                    for i, l in enumerate(cur):
                        n_compared += 1
                        if normalise(l) != ref[i] and len(diffs) < 20:
                            # find mode in force
                            m = "RoundHalfEven"
                            for r in reqs[:i][::-1]:
                                if r.startswith("mode "):
                                    m = r[5:]
                                    break
                            diffs.append({"request": reqs[i], "mode": m, names[0]: ref[i][:300], other: normalise(l)[:300]})
            st.batches += 1
            batch += 1
            if batch >= MAX_BATCHES[tier] or time.time() > deadline or st.violations or diffs:
                break
    except Exception:
        import traceback
        st.errors.append("worker %d crashed: %s" % (shard, traceback.format_exc()[-1200:]))
    return st, diffs, n_compared


def main(tier, seed):
    import multiprocessing
    from .. import oracle as O
    t0 = time.time()
    O.selftest(random.Random(seed))
    bins = [(E.build_name(p, f), B.build(p, f)) for p, f in BUILDS[tier]]
    t_build = time.time() - t0
    budget = float(os.environ.get("VERIF_BUDGET_S", "0") or 0) or BUDGET[tier]
    deadline = time.time() + budget
    with multiprocessing.Pool(E.NCPU) as pool:
        results = pool.map(_worker, [(tier, seed, s, bins, deadline) for s in range(E.NCPU)])
    st = E.Stats()
    diffs = []
    compared = 0
    for r, d, n in results:
        st.merge(r)
        diffs += d
        compared += n
    # cross-build differences are violations of C20 in their own right
    for d in diffs[:25]:
        keys = [k for k in d if k not in ("request", "mode")]
        st.violations.append({"mode": d["mode"], "build": "+".join(keys), "request": d["request"],
                              "event": " / ".join("%s: %s" % (k, d[k]) for k in keys),
                              "expected": "identical outcome in every build profile", "class": "cross-build-difference"})
    mod = sys.modules[__name__]
    code, ev = E.finish(mod, tier, seed, st, t0, {"build_s": round(t_build, 1), "builds": [b for b, _ in bins]},
                        {"log_lines_compared_across_builds": compared, "cross_build_differences": len(diffs),
                         "build_matrix": [{"profile": p, "features": list(f)} for p, f in BUILDS[tier]]})
    return code


def replay(path):
    return E.replay(sys.modules[__name__], path)
