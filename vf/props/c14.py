"""C14 - integer conversions are exact and total with precise error kinds."""

import random
import sys

from .. import engine as E
from .. import gen as G
from ..oracle import M, P10, INT_TYPES
from . import common as C

ID = "C14"
TITLE = "Integer conversions are exact and total with precise error kinds"
RULE = ("requests `fromint <type>:<v>` (9 types via From, u128 via TryFrom) and `toint <type> D<c>:<s>` for the 10 "
        "primitive types; constructed: (T::MIN, T::MAX) + {-1,0,1} written at every scale 0..=18, non-integral "
        "values inside and outside each type's range, coefficients with 2^63 <= |c| < 2^64 and scale > 0; plus "
        "seeded random operands. Non-trivial = scale > 0, or value within 1 of a type bound")
BUILDS = {"quick": [("dev", ()), ("release", ())],
          "thorough": [("dev", ()), ("release", ()), ("release", ("packed",)), ("o0-nochk", ())]}
MODE_INDEPENDENT = True      # half of every batch runs under a non-default thread rounding mode
REQUIRED_SITES = {}
BUDGET = {"quick": 15, "thorough": 200}
N_RANDOM = {"quick": 15000, "thorough": 50000}
TYPES = list(INT_TYPES)


def check(toks, resp, mode, build):
    op = toks[0]
    if op == "fromint":
        ty, v = toks[1].split(":")
        v = int(v)
        if ty == "u128" and v > M:
            want = "E InternalOverflow"
        else:
            want = "V %d 0" % v
        lo, hi = INT_TYPES[ty]
        return ("ok" if resp.raw == want else "viol"), "fromint." + ty, v in (lo, hi, lo + 1, hi - 1, M, M + 1), want
    ty = toks[1]
    a, p = E.pD(toks[2])
    lo, hi = INT_TYPES[ty]
    if a % P10[p] != 0:
        want = "E NotAnIntValue"
        near = True
    else:
        v = a // P10[p]
        want = "I %d" % v if lo <= v <= hi else "E ValueOutOfRange"
        near = p > 0 or min(abs(v - lo), abs(v - hi)) <= 1
    return ("ok" if resp.raw == want else "viol"), "toint.%s.%s" % (ty, want.split(" ")[1] if want[0] == "E" else "ok"), near, want


def constructed(rng):
    out = []
    for ty in TYPES:
        lo, hi = INT_TYPES[ty]
        for v in (lo, lo + 1, hi - 1, hi, 0, 1):
            out.append("fromint %s:%d" % (ty, v))
        for tt in TYPES:
            for base in (lo, hi):
                for d in (-1, 0, 1):
                    v = base + d
                    for s in range(19):
                        c = v * P10[s]
                        if abs(c) <= M:
                            out.append("toint %s %s" % (tt, G.fD(c, s)))
                        if s > 0:
                            c2 = c + rng.choice((1, -1, 5 * P10[s - 1]))
                            if abs(c2) <= M:
                                out.append("toint %s %s" % (tt, G.fD(c2, s)))
    # integral values drawn over the whole coefficient range at every scale (trailing fractional zeros), and the seams
    for s in range(1, 19):
        for _ in range(1200 if s >= 15 else 150):
            q = rng.randrange(0, M // P10[s] + 1)
            c = q * P10[s] * rng.choice((1, -1))
            out.append("toint %s %s" % (rng.choice(TYPES), G.fD(c, s)))
        for c in G.split_values(rng, s, 2):
            out.append("toint %s %s" % (rng.choice(TYPES), G.fD(c * rng.choice((1, -1)), s)))
    # multiples of 10^n beyond 2^64 / 2^128 reduced modulo the word size
    for c, n in G.wrapped_multiples():
        for s in set((n, rng.randrange(1, 19))):
            for sg in (1, -1):
                out.append("toint %s %s" % (rng.choice(("i128", "u128", "i64", "u64", rng.choice(TYPES))), G.fD(sg * c, s)))
    # decision boundary of division-free divisibility tests (x * inverse(5^n) mod 2^w against floor((2^w - 1) / 5^n))
    for c, n in G.modinv_boundary_all(rng):
        for s in set((n, rng.randrange(1, 19))):
            for sg in (1, -1):
                out.append("toint %s %s" % (rng.choice(("i128", "i128", "u128", "i64", "u64", rng.choice(TYPES))), G.fD(sg * c, s)))
    # values that agree with an in-range value in the low bits of the target type (v + k * 2^width): a truncating cast
    for tt in TYPES:
        lo, hi = INT_TYPES[tt]
        width = (hi - lo + 1).bit_length() - 1
        for _ in range(12):
            v = rng.choice((0, 1, -1 if lo < 0 else 2, lo, hi, rng.randrange(lo, hi + 1)))
            for k in (1, -1, 2, rng.randrange(1, 1 << 20), -rng.randrange(1, 1 << 20)):
                t = v + (k << width)
                s = rng.randrange(0, 19)
                if abs(t) * P10[s] <= M:
                    out.append("toint %s %s" % (tt, G.fD(t * P10[s], s)))
                # ... and in the low 64 bits whatever the target type
                t2 = v + (k << 64)
                if abs(t2) * P10[s] <= M:
                    out.append("toint %s %s" % (tt, G.fD(t2 * P10[s], s)))
    out.append("fromint u128:%d" % M)
    out.append("fromint u128:%d" % (M + 1))
    out.append("fromint u128:%d" % ((1 << 128) - 1))
    for _ in range(400):
        c = rng.randrange(1 << 63, 1 << 64) * rng.choice((1, -1))
        s = rng.randrange(1, 19)
        if rng.random() < 0.5:
            c = (abs(c) // P10[s]) * P10[s] * (1 if c > 0 else -1)
        out.append("toint %s %s" % (rng.choice(TYPES), G.fD(c, s)))
    return out


_CON = None


def gen(rng, tier, shard, batch):
    global _CON
    reqs = []
    if batch == 0:
        if _CON is None:
            _CON = constructed(random.Random(20260114))
        reqs += _CON[shard::E.NCPU]
    for _ in range(N_RANDOM[tier]):
        if rng.random() < 0.25:
            ty = rng.choice(TYPES)
            lo, hi = INT_TYPES[ty]
            v = G.int_of(rng, ty) if ty != "u128" else rng.choice((rng.getrandbits(128), rng.getrandbits(rng.randrange(1, 129)), M + rng.randrange(-2, 3)))
            reqs.append("fromint %s:%d" % (ty, v))
        else:
            ty = rng.choice(TYPES)
            lo, hi = INT_TYPES[ty]
            k = rng.random()
            s = G.scale(rng)
            if k < 0.5:
                v = rng.choice((lo, hi, G.int_of(rng, ty if ty != "u128" else "u64"))) + rng.randrange(-2, 3)
                c = v * P10[s] + (rng.choice((0, 0, 1, -1, P10[s] // 2)) if s else 0)
                if abs(c) > M:
                    c = G.coeff(rng)
            else:
                c = G.coeff(rng)
            reqs.append("toint %s %s" % (ty, G.fD(c, s)))
    return reqs


main = C.standard_main(sys.modules[__name__])
