"""C07 - Display/ToString is canonical and round-trips through the parser."""

import random
import sys

from .. import engine as E
from .. import gen as G
from ..oracle import M, P10, canonical_str, parse_literal
from . import common as C

ID = "C07"
TITLE = "Display/ToString is canonical and round-trips through the parser"
RULE = ("requests `tostr`, `strfrom` (String::from), `debug` ({:?}), `parse S<canonical text>` and with feature "
        "serde-as-str `serde` (serde_json::to_string + from_str); oracle = canonical text from big-int "
        "divmod(|c|, 10^s); the three strings must equal it (Debug wrapped in Dec!(..)), re-parsing must return "
        "(c, s) exactly, JSON must be the quoted text and deserialise to (c, s); workload emphasises fractions with "
        "leading zeros, values in (-1, 0), 39-digit coefficients, 0 @ s, +-(2^127-1) and +-10^38 @ 0..18. "
        "Non-trivial = scale > 0")
BUILDS = {"quick": [("dev", ("full",)), ("release", ("full",))],
          "thorough": [("dev", ("full",)), ("release", ("full",)), ("release", ("full", "packed")), ("o0-nochk", ("full",))]}
MODE_INDEPENDENT = True      # half of every batch runs under a non-default thread rounding mode
REQUIRED_SITES = {}
BUDGET = {"quick": 15, "thorough": 200}
N_RANDOM = {"quick": 5000, "thorough": 20000}


def check(toks, resp, mode, build):
    op = toks[0]
    if op == "fmtfail":
        return C.check_fmtfail(toks, resp, mode)
    if op == "fmtpanic":
        return C.check_fmtpanic(toks, resp, mode)
    if op == "serdefail":
        return C.check_serdefail(toks, resp)
    if op == "debugf":
        return C.check_debugf(toks, resp)
    if op == "serde_de":
        # JSON string -> Decimal goes through the same parser: accept exactly what from_str accepts
        js = E.unhex(toks[1])
        exp = parse_literal(js[1:-1])
        if exp[0] == "ok":
            want = "V %d %d" % (exp[1], exp[2])
        else:
            want = "E de"
        return ("ok" if resp.raw == want else "viol"), "serde_de." + exp[0], True, want
    if op == "parse":
        # the request carries the canonical text; (c, s) is recovered from it by the oracle
        text = E.unhex(toks[1])
        neg = text.startswith("-")
        body = text.lstrip("-")
        ip, _, fp = body.partition(".")
        c = int(ip + fp)
        c = -c if neg else c
        want = "V %d %d" % (c, len(fp))
        return ("ok" if resp.raw == want else "viol"), "reparse", len(fp) > 0, want
    a, p = E.pD(toks[1])
    canon = canonical_str(a, p)
    if op in ("tostr", "strfrom"):
        want = E.hexs(canon)
    elif op == "debug":
        want = E.hexs("Dec!(" + canon + ")")
    elif op == "serde":
        want = "%s V %d %d" % (E.hexs('"' + canon + '"'), a, p)
    else:
        raise ValueError(op)
    return ("ok" if resp.raw == want else "viol"), op, p > 0, want + " (" + canon + ")"


def all_ops(a, p):
    d = G.fD(a, p)
    return ["tostr " + d, "strfrom " + d, "debug " + d, "serde " + d, "parse " + E.hexs(canonical_str(a, p))]


def constructed(rng):
    out = []
    for s in range(19):
        for c in (0, 1, -1, M, -M, P10[38], -P10[38], P10[38] + 1, P10[38] - 1, P10[s], -P10[s], P10[s] - 1, 1 - P10[s],
                  5, -5, P10[s] // 2 or 1, -(P10[s] // 2 or 1), 10 * P10[s], 7, -4247228607487600):
            out += all_ops(c, s)
        for k in range(39):
            out += all_ops(P10[k], s)
            out += all_ops(-P10[k], s)
    # integer part at floor(T / 10^s) +- 2 for the maxima T of the primitive types, fraction part all nines / all zeros /
    # one / a half (reciprocal tables, narrow fast paths and "marker digit" tricks live here), and the thresholds
    # themselves at every scale
    for v, k in G.type_scaled_thresholds():
        if v < 0:
            continue
        for frac in (P10[k] - 1, 0, 1, P10[k] // 2, P10[k] - 2):
            c = v * P10[k] + frac
            if c <= M:
                out += all_ops(c, k)
                out += all_ops(-c, k)
        for s in range(19):
            out += all_ops(v if rng.random() < 0.5 else -v, s)
    # multiples of 10^n beyond 2^64 / 2^128 reduced modulo the word size
    for c, n_ in G.wrapped_multiples():
        out += all_ops(c if rng.random() < 0.5 else -c, n_)
    # coefficients with binary-structured limbs, and literals whose leading digits form a binary-structured number
    # (carry propagation in limb-wise digit accumulation), at the scales that align the parser's digit groups
    for _ in range(1500):
        c = G.limb_structured(rng) if rng.random() < 0.4 else G.prefix_structured(rng)
        if c == 0:
            continue
        for s in set((0, 8, 16, rng.randrange(0, 19))):
            out += all_ops(c if rng.random() < 0.7 else -c, s)
    return out


_CON = None


def gen(rng, tier, shard, batch):
    global _CON
    reqs = []
    if batch == 0:
        if _CON is None:
            _CON = constructed(random.Random(20260107))
        reqs += _CON[shard::E.NCPU]
    for lit in ("1e3", "1.50", " 1", "", "+7", "-0.000", "1e-19", ".5", "5.", "170141183460469231731687303715884105728",
                "0.1234567890123456789", "1_0", "0x10", "-1.5E+2"):
        reqs.append("serde_de " + E.hexs('"' + lit + '"'))
    for _ in range(N_RANDOM[tier]):
        a, p = G.dec(rng)
        k = rng.random()
        if k < 0.3 and p > 0:
            a = rng.randrange(-P10[p] + 1, P10[p])            # (-1, 1): leading fraction zeros
        elif k < 0.4 and p > 0:
            a = rng.randrange(0, 1000) * rng.choice((1, -1))  # many leading zeros
        reqs += all_ops(a, p)
        if rng.random() < 0.02:
            # a write into a sink that fails part-way; the following requests must be unaffected
            c2, s2 = G.dec(rng)
            reqs.append("fmtfail %d - %s" % (rng.randrange(0, 45), G.fD(c2, s2)))
        if rng.random() < 0.02:
            c2, s2 = G.dec(rng)
            reqs.append(rng.choice(("fmtpanic %d - %s", "serdefail %d %s")) % (rng.randrange(0, 45), G.fD(c2, s2)))
        if rng.random() < 0.05:
            reqs.append("debugf %s %s" % (rng.choice(C.DEBUGF_KINDS), G.fD(a, p)))
    return reqs


main = C.standard_main(sys.modules[__name__])
