"""C12 - Decimal to f64/f32 conversion is correctly rounded."""

import random
import sys
from fractions import Fraction

from .. import engine as E
from .. import gen as G
from .. import hard as H
from ..oracle import M, P10, f64_bits, f32_bits, decode_float
from . import common as C

ID = "C12"
TITLE = "Decimal to f64/f32 conversion is correctly rounded"
RULE = ("requests `tof64|tof32 D<c>:<s>` -> bit pattern; oracle: exact round-half-even of c/10^s to 53/24 bits "
        "(self-validated against CPython's correctly rounded int/int division and the nearest-neighbour definition); "
        "constructed: for random floats f of every binade in range the exact midpoint m between f and its successor, "
        "then for every scale the Decimals floor(m*10^s) + {-2..2}; exact ties where m*10^s is an integer; values "
        "straddling powers of two; integral values with non-zero scale; 0 @ s; the regression inputs of issues "
        "#13/#14; plus `probe --sweep-tof`: millions of pseudo-random and structured Decimals per run compared in-process "
        "with what Rust std's correctly rounded parser makes of the decimal text (a second, independent oracle; its structured classes enumerate every guard/round/sticky pattern below random 24- and "
        "53-bit significands); `probe --sweep-tof32-small`: every coefficient of a window x every scale x both signs "
        "against an exact integer reference; `probe --sweep-tof32-hard`: a scan of all 8*10^10 pairs (c < 2^32, n <= 18) "
        "for values extremely close to an f32 midpoint, every candidate checked exactly. Non-trivial = within 2 decimal ulps of a float midpoint or a power of two")
BUILDS = {"quick": [("dev", ()), ("release", ())],
          "thorough": [("dev", ()), ("release", ()), ("release", ("packed",)), ("o0-nochk", ())]}
MODE_INDEPENDENT = True      # half of every batch runs under a non-default thread rounding mode
REQUIRED_SITES = {"tofloat.adj": 500, "tofloat.tie": 100}
BUDGET = {"quick": 20, "thorough": 250}
N_RANDOM = {"quick": 2500, "thorough": 10000}


def check(toks, resp, mode, build):
    op = toks[0]
    c, s = E.pD(toks[1])
    want = f64_bits(c, P10[s]) if op == "tof64" else f32_bits(c, P10[s])
    ok = resp.kind == "U" and int(resp.f[0]) == want
    return ("ok" if ok else "viol"), op, len(toks) > 2, "U %d" % want


def midpoint_cases(rng, mant, expb, n):
    """Decimals at / next to midpoints of adjacent floats. Yields (c, s)."""
    out = []
    for _ in range(n):
        e = rng.randrange(-62, 127)              # value ~ 2^e
        m = rng.getrandbits(mant - 1) | (1 << (mant - 1))
        if rng.random() < 0.2:
            m = rng.choice(((1 << mant) - 1, 1 << (mant - 1), (1 << (mant - 1)) + 1))
        # midpoint between m*2^(e-mant+1) and (m+1)*2^(e-mant+1)
        mid = Fraction(2 * m + 1) * Fraction(2) ** (e - mant)
        for s in range(19):
            x = mid * P10[s]
            c0 = x.numerator // x.denominator
            if c0 > M or c0 < 1:
                continue
            exact = x.denominator == 1
            ds = (0,) if exact and rng.random() < 0.5 else (-2, -1, 0, 1, 2)
            if rng.random() < 0.5:
                # a distance from the midpoint whose low 32 / 64 bits vanish (inexactness judged from a truncated word)
                j = rng.choice((1, 2, 3, rng.randrange(1, 1 << 20)))
                ds = ds + ((j << 64), -(j << 64), (j << 32), -(j << 32), (j << 64) + 1, (j << 96))
            # ... and a distance equal to the weight of the bits a conversion drops when it pre-shifts a long coefficient:
            # 2^(j-1), 2^j, 2^(j-2) with j = bitlen(c) - bitlen(10^s) - (mant + 2), and a few random powers of two
            jsh = c0.bit_length() - P10[s].bit_length() - (mant + 2)
            extra = []
            for t in (jsh - 2, jsh - 1, jsh, jsh + 1, rng.randrange(0, 100), rng.randrange(0, 100)):
                if 0 <= t < 120:
                    extra += [1 << t, -(1 << t)]
            ds = tuple(ds) + tuple(extra)
            for d in ds:
                c = c0 + d
                if 0 < c <= M:
                    out.append((c if rng.random() < 0.5 else -c, s))
    return out


def dyadic_cases(rng, mant, n):
    """Exactly dyadic values written with a non-zero scale: coefficient = m * 5^s at scale s (value m / 2^s). m carries
    1..40 more significant bits than the float format; the extra bits are: every pattern of up to 4 bits (1/16 ... 15/16
    ulp), a midpoint pattern 1000...0 followed by a tiny tail (a value just beside the midpoint, the tail below the
    resolution of the NEXT wider float type), all ones, and random. Both parities of the kept significand."""
    out = []
    for _ in range(n):
        s = rng.randrange(1, 19)
        f5 = 5 ** s
        mbits_max = (M // f5).bit_length() - 1
        extra = rng.choice((1, 2, 3, 4, 5, 8, 13, 29, 30, 37, 40, rng.randrange(1, 60)))
        if mant + extra > mbits_max:
            extra = mbits_max - mant
        if extra < 1:
            continue
        kept = rng.getrandbits(mant - 1) | (1 << (mant - 1))
        if rng.random() < 0.3:
            kept = rng.choice(((1 << mant) - 1, 1 << (mant - 1), (1 << mant) - 2, kept | 1, kept & ~1))
        k = rng.randrange(6)
        if k == 0 and extra <= 4:
            tails = list(range(1 << extra))
        elif k == 1:
            tails = [(1 << (extra - 1)) + 1, (1 << (extra - 1)) - 1, 1 << (extra - 1)]            # midpoint +- one unit
        elif k == 2:
            tails = [(1 << (extra - 1)) | (1 << rng.randrange(0, extra)), (1 << (extra - 1)) | rng.getrandbits(max(1, extra - 30))]
        elif k == 3:
            tails = [(1 << extra) - 1, 1, (1 << extra) - 2]
        else:
            tails = [rng.getrandbits(extra), (1 << (extra - 1)) | rng.getrandbits(extra - 1 if extra > 1 else 1) % (1 << (extra - 1))]
        for t in tails:
            m = (kept << extra) | (t & ((1 << extra) - 1))
            c = m * f5
            if 0 < c <= M:
                out.append((c if rng.random() < 0.7 else -c, s))
    return out


def constructed(rng):
    out = []
    for op, mant in (("tof64", 53), ("tof32", 24)):
        for c, s in dyadic_cases(rng, mant, 1500):
            out.append("%s %s dyadic" % (op, G.fD(c, s)))
        for c, s in midpoint_cases(rng, mant, None, 300):
            out.append("%s %s mid" % (op, G.fD(c, s)))
        # powers of two straddled
        for e in range(-59, 127):
            v = Fraction(2) ** e
            for s in (0, 3, 9, 18):
                x = v * P10[s]
                c0 = x.numerator // x.denominator
                for d in (-1, 0, 1):
                    c = c0 + d
                    if 0 < c <= M:
                        out.append("%s %s pow2" % (op, G.fD(c, s)))
        for s in range(19):
            out.append("%s %s zero" % (op, G.fD(0, s)))
            for c in (1, -1, M, -M, P10[s], 3 * P10[s], 10101010101010101, 9802266554071127, 90071992547409905000000000001):
                out.append("%s %s k" % (op, G.fD(c, s)))
        # exact decimal ties: k + 0.5 with k >= 2^(mant-1)
        for _ in range(200):
            k = rng.getrandbits(mant - 1) | (1 << (mant - 1))
            s = rng.randrange(1, 19)
            c = (2 * k + 1) * 5 * P10[s - 1]
            if c <= M:
                out.append("%s %s tie" % (op, G.fD(c * rng.choice((1, -1)), s)))
            j = rng.randrange(1, 10)
            c2 = ((2 * k + 1) << j) * 5 * P10[s - 1]
            if c2 <= M:
                out.append("%s %s tie" % (op, G.fD(c2, s)))
    return out


_CON = None


def gen(rng, tier, shard, batch):
    global _CON
    reqs = []
    if batch == 0:
        if _CON is None:
            _CON = constructed(random.Random(20260112))
        reqs += _CON[shard::E.NCPU]
    for op, mant in (("tof64", 53), ("tof32", 24)):
        for c, s in midpoint_cases(rng, mant, None, 40 if tier == "quick" else 150):
            reqs.append("%s %s mid" % (op, G.fD(c, s)))
    # hard cases computed with the modular-interval solver (vf/hard.py): for every binade and scale the coefficients whose
    # value is about as close to a midpoint of two adjacent floats as that binade allows (64- and 128-bit coefficients
    # included - the f64 analogue of the exhaustive f32 near-midpoint scan); a fresh random start per batch
    for op, mant in (("tof64", 53), ("tof32", 24)):
        for e in range(-62, 127):
            if (e + shard + batch) % 4 and tier == "quick":
                continue
            for s in range(19):
                for c in H.dec_to_float_hard(rng, mant, s, e):
                    reqs.append("%s %s hard" % (op, G.fD(c if rng.random() < 0.5 else -c, s)))
                    if rng.random() < 0.2:
                        reqs.append("%s %s hard" % (op, G.fD(c + rng.choice((1, -1)), s)))
    for op, mant in (("tof64", 53), ("tof32", 24)):
        for c, s in dyadic_cases(rng, mant, 150 if tier == "quick" else 600):
            reqs.append("%s %s dyadic" % (op, G.fD(c, s)))
    for _ in range(N_RANDOM[tier]):
        c, s = G.dec(rng)
        reqs.append("%s %s" % (rng.choice(("tof64", "tof32")), G.fD(c, s)))
    return reqs


def main(tier, seed):
    """Line-protocol monitor with the Python oracle, then an in-process bulk monitor against a second, independent
    oracle: Rust std's correctly rounded decimal-string parser (`probe --sweep-tof`)."""
    from .. import build as B
    code, ev = E.run_property(sys.modules[__name__], tier, seed)
    binary = B.build("release", ())
    n = 400000 if tier == "quick" else 20000000
    sw = E.run_sweep(binary, ["--sweep-tof", n, seed, E.NCPU])

    def rl(ex):
        parts = ex.split(" ")
        return "%s %s" % (parts[1], parts[2])
    code = E.fold_sweep(ID, code, ev, "std_parse_crosscheck", sw, tier, seed, rl)
    # exhaustive sub-domain for f32: EVERY coefficient of a window at every scale 0..=18 and both signs, exact
    # integer reference (quick: [1, 2^16) and a 2^22 window chosen by the seed; thorough: a 2^30 window chosen by
    # the seed - seeds 0..3 cover all 32-bit coefficients - or all of [1, 2^32) with VERIF_DEEP=1, ~75 min)
    import os
    windows = [(1, 1 << 16)]
    if tier == "quick":
        w = 1 << 22
        start = (1 << 16) + ((seed * 2654435761) % 1000) * w
        windows.append((start, start + w))
    elif os.environ.get("VERIF_DEEP"):
        windows = [(1, 1 << 32)]
    else:
        w = 1 << 30
        windows.append(((seed % 4) * w + 1, (seed % 4 + 1) * w))
    tot = {"ran": True, "windows": [], "checked": 0, "mismatches": 0, "examples": [], "wall_s": 0.0}
    for lo, hi in windows:
        r = E.run_sweep(binary, ["--sweep-tof32-small", lo, hi, E.NCPU], timeout=8000)
        if not r.get("ran"):
            tot = r
            break
        tot["windows"].append([lo, hi])
        tot["checked"] += r["checked"]
        tot["mismatches"] += r["mismatches"]
        tot["examples"] += r["examples"][:5]
        tot["wall_s"] += r["wall_s"]
    code = E.fold_sweep(ID, code, ev, "f32_small_coefficient_sweep", tot, tier, seed, rl)
    # hard cases: scan ALL (c, n), c < 2^32, n <= 18, for values within 2^-27 ulp-fractions of the midpoint of two
    # adjacent f32 values (incremental fixed-point arithmetic, no library call), then check every such candidate
    # and its neighbours exactly - the inputs on which a conversion that rounds twice goes wrong
    hw = E.run_sweep(binary, ["--sweep-tof32-hard", E.NCPU, 27], timeout=3000)
    code = E.fold_sweep(ID, code, ev, "f32_near_midpoint_hard_cases", hw, tier, seed, rl)
    if tot.get("ran"):
        ev["coverage"]["exhaustive_subdomains"] = ["f32::from(Decimal(c, n)) for every c in %s, every n in 0..=18, both signs" % tot["windows"]]
    E.write_evidence(ID, ev)
    return code
