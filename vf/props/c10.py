"""C10 - remainder satisfies the truncated-division identity exactly."""

import random
import sys

from .. import engine as E
from .. import gen as G
from ..oracle import M, P10, in_i128, trunc_div, value_eq, OP_INT_TYPES, INT_TYPES
from . import arith as A
from . import common as C

ID = "C10"
TITLE = "Remainder satisfies the truncated-division identity exactly"
RULE = ("requests `rem|crem <form> <lhs> <rhs>` over all operand shapes and forms (incl. %=); constructed: "
        "dividends that need up-scaling beyond i128 with small and with huge (> 2^127/10) divisors, divisors "
        "whose up-scaling overflows (dividend must be returned), divisor +-1 in every representation, integer "
        "operands at the type bounds. Oracle: r = A - B*trunc(A/B) at scale max(p,q) compared by value; an "
        "overflow signal is accepted only when p < q and a*10^(q-p) leaves i128. Non-trivial = scales differ")
BUILDS = {"quick": [("dev", ()), ("release", ())],
          "thorough": [("dev", ()), ("release", ()), ("release", ("packed",)), ("o0-nochk", ())]}
MODE_INDEPENDENT = True      # half of every batch runs under a non-default thread rounding mode
ASSUMPTIONS = [C.GRID_NOTE]
REQUIRED_SITES = {"rem.eq": 100, "rem.gt.fit": 100, "rem.gt.ovf": 50, "rem.lt.fit": 100, "rem.lt.step": 100,
                  "rem.lt.step_ovf": 20}
BUDGET = {"quick": 20, "thorough": 300}
N_RANDOM = {"quick": 12000, "thorough": 40000}


def check(toks, resp, mode, build):
    op, form = toks[0], toks[1]
    l = C.operand(toks[2])
    r = C.operand(toks[3])
    a, p, _ = l
    b, q, _ = r
    checked = op == "crem"
    s = max(p, q)
    if b == 0:
        spec = ("signal",)
    else:
        Av = a * P10[s - p]
        Bv = b * P10[s - q]
        rv = Av - Bv * trunc_div(Av, Bv)
        spec = ("value", rv, s, s)
        if p < q and not in_i128(Av):
            spec = ("dc", spec)
    verdict = A.judge(spec, form, resp, checked)
    label = "%s.%s.%s" % (op, A.shape_of(l, r), spec[0])
    if spec[0] == "dc":
        kinds = set(x.kind for _, x in C.results(form, resp))
        label += ".signalled" if kinds - {"V"} else ".exact"
    return verdict, label, p != q and b != 0 and a != 0, A.spec_text(spec, checked)


def sg(rng, x):
    return x if rng.random() < 0.5 else -x


def constructed(rng):
    out = []

    def add(l, r):
        op = rng.choice(("rem", "rem", "crem"))
        form = rng.choice(("*", "vv", "rv", "vr", "rr") + (("av", "ar") if op == "rem" and l[0] == "D" else ()))
        out.append("%s %s %s %s" % (op, form, l, r))

    for _ in range(400):
        p = rng.randrange(0, 18)
        q = rng.randrange(p + 1, 19)
        k = q - p
        # dividend whose up-scaling overflows
        a = rng.randrange(M // P10[k] + 1, M + 1)
        kind = rng.randrange(5)
        if kind == 4:
            b = rng.randrange(P10[38 - k], min(M, P10[39 - k]) + 1)     # exactly 39-k digits: b * 10^k is a 39-digit number
        elif kind == 0:
            b = rng.getrandbits(rng.randrange(1, 60)) + 1
        elif kind == 1:
            b = rng.randrange(M // 10 + 1, M + 1)          # rem * 10 can overflow
        elif kind == 2:
            b = rng.randrange(M // 100, M // 10 + 2)
        else:
            b = rng.getrandbits(rng.randrange(60, 127)) + 1
        add(G.fD(sg(rng, a), p), G.fD(sg(rng, b), q))
    for _ in range(200):
        q = rng.randrange(0, 18)
        p = rng.randrange(q + 1, 19)
        k = p - q
        b = rng.randrange(M // P10[k] + 1, M + 1)          # divisor up-scaling overflows
        a = G.coeff(rng)
        add(G.fD(a, p), G.fD(sg(rng, b), q))
        b2 = rng.randrange(1, M // P10[k] + 1)
        add(G.fD(a, p), G.fD(sg(rng, b2), q))
        add(G.fD(sg(rng, M), p), G.fD(sg(rng, M // P10[k]), q))
    # exact multiples on the branch where the dividend cannot be up-scaled: x = t * y with a divisor coefficient
    # that carries q - p trailing zeros (remainder 0; every last digit of t), and the neighbours x +- 1 ulp
    for _ in range(300):
        p = rng.randrange(0, 18)
        q = rng.randrange(p + 1, 19)
        k = q - p
        b1 = rng.getrandbits(rng.randrange(1, max(2, 120 - 4 * k))) + 1
        b = b1 * P10[k]
        if b > M:
            continue
        tmin = M // (b1 * P10[k]) + 1          # a = t * b1 must exceed M / 10^k
        tmax = M // b1
        if tmin > tmax:
            continue
        t = rng.randrange(tmin, tmax + 1)
        t = t - t % 10 + rng.randrange(0, 10)
        if not tmin <= t <= tmax:
            continue
        a = t * b1
        for da in (0, 0, 1, -1):
            if abs(a + da) <= M:
                add(G.fD(sg(rng, a + da), p), G.fD(sg(rng, b), q))
    # divisors of EVERY bit length 2..126 on the digit-wise branch (the dividend cannot be up-scaled), the running
    # remainder as large as it gets (y - 1 - small), scale differences 1 / 8 / 15..18 (step sizes derived from the
    # divisor's bit length or leading zeros)
    for L in range(2, 127):
        for k in (1, 8, 15, 16, 17, 18, rng.randrange(1, 19)):
            y = rng.choice(((1 << L) - 1, 1 << (L - 1), rng.getrandbits(L) | (1 << (L - 1))))
            if y < 2:
                continue
            lo = M // P10[k] + 1                     # x * 10^k does not fit
            if lo + y > M:
                continue
            t = rng.randrange(lo // y + 1, M // y + 1) if M // y > lo // y else None
            if t is None:
                continue
            x = t * y - 1 - rng.choice((0, 0, 1, rng.randrange(0, max(1, y // 1000))))
            if not lo <= x <= M:
                continue
            p = rng.randrange(0, 19 - k)
            add(G.fD(x * rng.choice((1, -1)), p), G.fD(y * rng.choice((1, -1)), p + k))
    # identical operands (x % x; the driver also runs `&x % &x` with both references to one object)
    for s in range(19):
        for c in (1, -1, 5, P10[s], M, -M, rng.randrange(-M, M) or 1, G.small_coeff(rng, 60) or 1):
            add(G.fD(c, s), G.fD(c, s))
            out.append("%s * %s %s" % (rng.choice(("rem", "crem")), G.fD(c, s), G.fD(c, s)))
    # common huge cofactor: x = a * g, y = b * g with b a small number whose decimal period is short (3, 9, 11, 37, 101,
    # ...): the running remainder of a digit-wise reduction is g * (a * 10^i mod b) and cycles with that period, so
    # it can repeat (or be a fixed point) before the reduction is complete; g large enough that the dividend cannot
    # be up-scaled
    for _ in range(300):
        b = rng.choice((3, 7, 9, 11, 13, 27, 33, 37, 41, 99, 101, 111, 271, 303, 333, 999, 1001, 9091, 9901, 99999,
                        rng.randrange(2, 2000)))
        p = rng.randrange(0, 18)
        q = rng.randrange(p + 1, 19)
        k = q - p
        glo = M // (b * P10[k]) + 1                   # b * g * 10^k > M as well
        ghi = M // (b * rng.choice((1, 1, 10, 100)))
        if glo >= ghi:
            continue
        g = rng.randrange(glo, ghi + 1)
        amax = M // g
        a = rng.randrange(1, min(amax, 50 * b) + 1)
        if a * g * P10[k] <= M:
            a = amax - rng.randrange(0, b)
        add(G.fD(a * g * rng.choice((1, -1)), p), G.fD(b * g * rng.choice((1, -1)), q))
    # operands at floor(T / 10^k) +- 2 for every primitive-type maximum T, aligned by exactly 10^k
    for x, y in G.threshold_pairs(rng):
        if y[0] != 0:
            add(G.fD(*x), G.fD(*y))
    # Decimals at the ends of an integer type's range against that type's -1 / 1 / 2 / ends (T::MIN % -1 in native width)
    for dt, it in C.native_width_cases(rng):
        if it.split(":")[1] != "0":
            out.append("%s * %s %s" % (rng.choice(("rem", "crem")), dt, it))
        if not dt.startswith("D0:"):
            out.append("%s * %s %s" % (rng.choice(("rem", "crem")), it, dt))
    # integer dividends that cannot be up-scaled, huge divisors (step overflow with an int on the left)
    for _ in range(150):
        q = rng.randrange(1, 19)
        a = rng.randrange(M // P10[q] + 1, M + 1)
        b = rng.randrange(M // 10 + 1, M + 1) if rng.random() < 0.6 else rng.getrandbits(rng.randrange(20, 127)) + 1
        add(G.fI("i128", sg(rng, a)), G.fD(sg(rng, b), q))
        if a < (1 << 64):
            add(G.fI("u64", a), G.fD(sg(rng, b), q))
    for q in range(1, 19):
        add(G.fI("u64", (1 << 64) - 1), G.fD(sg(rng, rng.randrange(M // 10 + 1, M + 1)), q))
        add(G.fI("i64", -(1 << 63)), G.fD(sg(rng, rng.randrange(M // 10 + 1, M + 1)), q))
    # operands at the widths of the primitive types, divisors +-1, +-2, 3, 10 (narrow-type fast paths)
    for c in G.type_boundary_coeffs():
        for s in (0, 1, 9, 18):
            for b in (1, -1, 2, -2, 3, 10, -10):
                add(G.fD(c, s), G.fD(b, s))
                add(G.fD(c, s), G.fD(b, rng.randrange(0, 19)))
                add(G.fD(b, s), G.fD(c, s))
        for ty, v in (("i64", -1), ("i8", -1), ("i128", -1), ("u8", 1), ("i32", 2)):
            add(G.fD(c, 0), G.fI(ty, v))
            if abs(c) < (1 << 63):
                add(G.fI("i64", c), G.fD(-1, 0))
                add(G.fI("i128", c), G.fD(-1, rng.randrange(0, 19)))
    # divisor whose up-scaled value lies in the 39-digit band 10^38 ..= 2^127-1 (fits, but only just)
    for _ in range(300):
        q = rng.randrange(0, 18)
        p = rng.randrange(q + 1, 19)
        k = p - q
        b = rng.randrange(P10[38 - k], M // P10[k] + 1)
        a = rng.randrange(b * P10[k], M + 1) if rng.random() < 0.7 else G.coeff(rng)
        add(G.fD(sg(rng, a), p), G.fD(sg(rng, b), q))
    for s in range(19):
        for t in range(19):
            x = rng.randrange(-M, M + 1)
            add(G.fD(x, t), G.fD(P10[s], s))
            add(G.fD(x, t), G.fD(-P10[s], s))
        for w in G.trunc_twins(rng, rng.choice((P10[s], -P10[s], 0)))[::2]:
            # agrees with one / zero in its low 32 / 64 / 96 bits only
            xs = rng.choice((3, -7, rng.randrange(-10 ** 6, 10 ** 6) or 1))
            tt = rng.randrange(0, 19)
            add(G.fD(xs, tt), G.fD(w, s))
            add(G.fD(w, s), G.fD(xs, tt))
        add(G.fD(0, s), G.fD(rng.randrange(1, 999), rng.randrange(0, 19)))
        add(G.fD(rng.randrange(1, 999), rng.randrange(0, 19)), G.fD(0, s))
        add(G.fD(0, s), G.fD(0, rng.randrange(0, 19)))
    for ty in OP_INT_TYPES:
        lo, hi = INT_TYPES[ty]
        for v in (lo, hi, 0, 1, 2, 3, 7, 10, -1 if lo < 0 else 100):
            for s in (0, 1, 9, 18):
                for c in (0, 1, -1, M, -M, 7 * P10[s] + 3, -P10[s], rng.randrange(-M, M)):
                    if abs(c) > M:
                        continue
                    add(G.fD(c, s), G.fI(ty, v))
                    add(G.fI(ty, v), G.fD(c, s))
    return out


_CON = None


def gen(rng, tier, shard, batch):
    global _CON
    reqs = []
    if batch == 0:
        if _CON is None:
            _CON = constructed(random.Random(20260110))
        reqs += _CON[shard::E.NCPU]
        for a, p, b, q in C.small_grid(tier, shard, E.NCPU):
            reqs.append("rem vv %s %s" % (G.fD(a, p), G.fD(b, q)))
    for _ in range(N_RANDOM[tier]):
        op = rng.choice(("rem", "rem", "crem"))
        ltok, rtok = C.shape_operands(rng)
        if ltok[0] == "D" and rtok[0] == "D" and rng.random() < 0.4:
            a, p = E.pD(ltok)
            b = G.small_coeff(rng, rng.choice((20, 64, 100)))
            rtok = G.fD(b, G.scale(rng))
        form = C.pick_form(rng, ltok[0] == "D", op == "rem")
        reqs.append("%s %s %s %s" % (op, form, ltok, rtok))
    return reqs


main = C.standard_main(sys.modules[__name__])
