"""C08 - equality and ordering are by numeric value and form a total order; rkyv identity."""

import random
import sys

from .. import engine as E
from .. import gen as G
from ..oracle import M, P10, in_i128, OP_INT_TYPES, INT_TYPES
from . import common as C

ID = "C08"
TITLE = "Equality and ordering are by numeric value and form a total order"
RULE = ("requests `cmpall` (== != < <= > >= partial_cmp) for Decimal/Decimal and Decimal/int in both positions "
        "(9 int types), `minmax` (min max cmp partial_cmp), live structures `sort` (slice::sort, panics on an "
        "inconsistent order) and `btree` (BTreeSet in-order walk) over many representations of few values, and with "
        "feature rkyv `rk_rt` (to_bytes -> check_archived_root -> deserialize) and `rk_cmp` (archived vs archived, "
        "archived vs Decimal, Decimal vs archived, predicates) on the derived impl and on the manual unsafe impl "
        "(feature packed); oracle = sign of a*10^q - b*10^p; constructed: pairs whose scale alignment overflows "
        "i128 in either direction with every sign / zero combination, equal values in all representations, ints at "
        "type bounds against Decimals at scale 18. Non-trivial = scales differ or alignment overflows i128")
BUILDS = {"quick": [("dev", ("full",)), ("release", ("full",)), ("release", ("full", "packed"))],
          "thorough": [("dev", ("full",)), ("release", ("full",)), ("release", ("full", "packed")),
                       ("dev", ("full", "packed")), ("o0-nochk", ("full",))]}
MODE_INDEPENDENT = True      # half of every batch runs under a non-default thread rounding mode
ASSUMPTIONS = [C.GRID_NOTE]
REQUIRED_SITES = {"cmp.lhs_ovf": 200, "cmp.rhs_ovf": 200}
BUDGET = {"quick": 20, "thorough": 300}
N_RANDOM = {"quick": 6000, "thorough": 30000}


def cmpv(a, p, b, q):
    x = a * P10[q] - b * P10[p]
    return (x > 0) - (x < 0)


def bits(c):
    return "%d%d%d%d%d%d" % (c == 0, c != 0, c < 0, c <= 0, c > 0, c >= 0)


def bits4(c):
    return "%d%d%d%d" % (c == 0, c != 0, c < 0, c > 0)


def plist(toks):
    return [E.pD(t) for t in toks]


def check(toks, resp, mode, build):
    op = toks[0]
    if op == "cmpall":
        a, p, lt = C.operand(toks[2])
        b, q, rt = C.operand(toks[3])
        c = cmpv(a, p, b, q)
        want = "C %s %d" % (bits(c), c)
        ok = resp.raw == want
        nontriv = p != q or not in_i128(a * P10[q]) or not in_i128(b * P10[p])
        shape = ("D" if lt is None else "i") + ("D" if rt is None else "i")
        return ("ok" if ok else "viol"), "cmpall." + shape, nontriv, want
    if op == "minmax":
        x, y = E.pD(toks[1]), E.pD(toks[2])
        c = cmpv(x[0], x[1], y[0], y[1])
        mn, mx = (x, y) if c <= 0 else (y, x)
        want = "X V %d %d V %d %d %d %d" % (mn[0], mn[1], mx[0], mx[1], c, c)
        ok = resp.raw == want
        if not ok and c == 0:
            # equal values: which of the two operands is returned is not fixed by the statement
            f = resp.raw.split(" ")
            if len(f) == 9 and f[0] == "X" and f[1] == "V" and f[4] == "V" and f[7:] == ["0", "0"]:
                ok = (int(f[2]), int(f[3])) in (x, y) and (int(f[5]), int(f[6])) in (x, y)
        return ("ok" if ok else "viol"), "minmax", x[1] != y[1], want
    if op == "clamp":
        x, lo, hi = E.pD(toks[1]), E.pD(toks[2]), E.pD(toks[3])
        if cmpv(lo[0], lo[1], hi[0], hi[1]) > 0:
            want = "P <panic: lo > hi>"
            return ("ok" if resp.kind == "P" else "viol"), "clamp.inverted", True, want
        if cmpv(x[0], x[1], lo[0], lo[1]) < 0:
            e = lo
        elif cmpv(x[0], x[1], hi[0], hi[1]) > 0:
            e = hi
        else:
            e = x
        want = "V %d %d (by value)" % e
        ok = resp.kind == "V" and cmpv(int(resp.f[0]), int(resp.f[1]), e[0], e[1]) == 0 and 0 <= int(resp.f[1]) <= 18
        return ("ok" if ok else "viol"), "clamp", True, want
    if op in ("sort", "btree"):
        items = plist(toks[1:])
        from fractions import Fraction
        key = lambda t: Fraction(t[0], P10[t[1]])
        if op == "sort":
            exp = sorted(items, key=key)          # stable, like slice::sort
        else:
            seen = {}
            for t in items:
                seen.setdefault(key(t), t)        # first inserted representation stays
            exp = [seen[k] for k in sorted(seen)]
        want = "L" + "".join(" %d:%d" % t for t in exp)
        return ("ok" if resp.raw == want else "viol"), op, True, want[:300]
    if op == "rk_rt":
        a, p = E.pD(toks[1])
        want = "V %d %d A %d %d" % (a, p, a, p)
        ok = resp.raw.startswith(want + " ")
        return ("ok" if ok else "viol"), "rk_rt." + ("packed" if "packed" in build else "derived"), True, want
    if op == "rk_tuple":
        a, p = E.pD(toks[1])
        want = "V %d %d V %d %d A %d %d %d %d T 1" % (-a, p, a, p, -a, p, a, p)
        return ("ok" if resp.raw == want else "viol"), "rk_tuple." + ("packed" if "packed" in build else "derived"), True, want
    if op == "rk_cmp":
        x, y = E.pD(toks[1]), E.pD(toks[2])
        c = cmpv(x[0], x[1], y[0], y[1])
        pr = "%d%d%d%d" % (x[0] == 0, x[0] == P10[x[1]], x[0] < 0, x[0] > 0)
        lg = "%d%d" % (c <= 0, c >= 0) * 3
        want = "C aa=%s:%d:%d ad=%s:%d da=%s:%d pr=%s lg=%s mm=11" % (bits4(c), c, c, bits4(c), c, bits4(c), c, pr, lg)
        return ("ok" if resp.raw == want else "viol"), "rk_cmp." + ("packed" if "packed" in build else "derived"), x[1] != y[1], want
    raise ValueError(op)


def overflow_pairs(rng):
    """(a,p),(b,q) whose alignment overflows in one direction, all sign/zero combos."""
    out = []
    for p in range(0, 18):
        for q in range(p + 1, 19):
            k = q - p
            big = rng.randrange(M // P10[k] + 1, M + 1)
            for a in (big, -big):
                for b in (0, 1, -1, M, -M, rng.randrange(-M, M), big, -big):
                    out.append(((a, p), (b, q)))
                    out.append(((b, q), (a, p)))
    return out


def constructed(rng):
    out = []
    for x, y in overflow_pairs(rng):
        out.append("cmpall vv %s %s" % (G.fD(*x), G.fD(*y)))
        out.append("minmax %s %s" % (G.fD(*x), G.fD(*y)))
        if rng.random() < 0.3:
            out.append("rk_cmp %s %s" % (G.fD(*x), G.fD(*y)))
        if rng.random() < 0.5:
            z = rng.choice((x, y, G.dec(rng), (x[0] + 1 if x[0] < M else x[0], x[1])))
            args = [x, y, z]
            rng.shuffle(args)
            out.append("clamp %s %s %s" % tuple(G.fD(*t) for t in args))
    # coefficients in the narrow band around the alignment-overflow threshold 2^127 / 10^k
    for p in range(0, 19):
        for q in range(0, 19):
            if p == q:
                continue
            k = abs(p - q)
            for d in (-2, -1, 0, 1, 2, rng.randrange(3, 1000)):
                a = M // P10[k] + d
                for sg in (1, -1):
                    for b in (a * P10[k] if abs(a * P10[k]) <= M else M, rng.randrange(-M, M), 1, M, -M):
                        lo, hi = (p, q) if p < q else (q, p)
                        out.append("cmpall vv %s %s" % (G.fD(sg * a, lo), G.fD(b, hi)))
                        out.append("minmax %s %s" % (G.fD(b, hi), G.fD(sg * a, lo)))
    # wrap twins: b is what a * 10^k wraps to in i128 (unchecked multiplications make them look equal)
    for _ in range(600):
        p = rng.randrange(0, 18)
        q = rng.randrange(p + 1, 19)
        k = q - p
        a = rng.randrange(M // P10[k] + 1, min(M, 3 * (M // P10[k] + 1)) + 1) * rng.choice((1, -1))
        w = G.wrap_twin(a, k)
        if w is None:
            continue
        out.append("cmpall vv %s %s" % (G.fD(a, p), G.fD(w, q)))
        out.append("cmpall vv %s %s" % (G.fD(w, q), G.fD(a, p)))
        out.append("minmax %s %s" % (G.fD(a, p), G.fD(w, q)))
        if q == 18 or p == 0:
            if p == 0:
                out.append("cmpall vv i128:%d %s" % (a, G.fD(w, k)))
    # 2^68-ish coefficients against scale 18 (fast paths that forget the sign bit)
    for _ in range(300):
        a = rng.randrange(170141183460469231731 - 5, (1 << 68) + 5) * rng.choice((1, -1))
        b = rng.choice((a * P10[18] if abs(a * P10[18]) <= M else M, rng.randrange(-M, M), M, -M))
        out.append("cmpall vv %s %s" % (G.fD(a, 0), G.fD(b, 18)))
        out.append("cmpall vv %s %s" % (G.fD(b, 18), G.fD(a, 0)))
        out.append("cmpall vv i128:%d %s" % (a, G.fD(b, 18)))
        out.append("cmpall vv %s i128:%d" % (G.fD(b, 18), a))
    # values congruent to an integer modulo 2^bits of its type (truncating casts)
    for ty in OP_INT_TYPES:
        lo, hi = INT_TYPES[ty]
        bits = hi.bit_length() + (1 if lo < 0 else 0)
        for v in (lo, hi, 0, 1, 17, -1 if lo < 0 else 200):
            if not lo <= v <= hi:
                continue
            for mult in (1, 2, -1, 3):
                w = v + mult * (1 << bits)
                for s in (0, 2, 18):
                    if abs(w * P10[s]) <= M:
                        out.append("cmpall vv %s %s" % (G.fD(w * P10[s], s), G.fI(ty, v)))
                        out.append("cmpall vv %s %s" % (G.fI(ty, v), G.fD(w * P10[s], s)))
    # operands at floor(T / 10^k) +- 2 for every primitive-type maximum T, aligned by exactly 10^k
    for x, y in G.threshold_pairs(rng):
        out.append("cmpall vv %s %s" % (G.fD(*x), G.fD(*y)))
        if rng.random() < 0.3:
            out.append("minmax %s %s" % (G.fD(*x), G.fD(*y)))
    # operands that agree in their low 32 / 64 / 96 bits (same scale, and after alignment)
    for _ in range(40):
        c, s = G.dec(rng)
        if rng.random() < 0.5:
            c = rng.choice((0, 1, -1, P10[s], -P10[s], G.small_coeff(rng, 60)))
        for t in G.trunc_twins(rng, c):
            out.append("cmpall vv %s %s" % (G.fD(c, s), G.fD(t, s)))
            k = rng.randrange(0, 19 - s)
            if abs(t) * P10[k] <= M:
                out.append("cmpall vv %s %s" % (G.fD(c, s), G.fD(t * P10[k], s + k)))
                out.append("cmpall vv %s %s" % (G.fD(t * P10[k], s + k), G.fD(c, s)))
    # limb-wise comparison: low limbs ordered against the high limbs, equal high limbs, all-ones / empty limbs
    for a, b in G.limb_carry_pairs(rng, 40):
        s = rng.randrange(0, 19)
        for sa, sb in ((1, 1), (-1, -1), (1, -1)):
            out.append("cmpall vv %s %s" % (G.fD(sa * a, s), G.fD(sb * b, s)))
        k = rng.randrange(0, 19 - s)
        if a * P10[k] <= M:
            out.append("cmpall vv %s %s" % (G.fD(a * P10[k], s + k), G.fD(b, s)))
    lg = G.limb_grid()
    for a in lg:
        for b in rng.sample(lg, 4):
            s = rng.randrange(0, 19)
            out.append("cmpall vv %s %s" % (G.fD(a * rng.choice((1, -1)), s), G.fD(b * rng.choice((1, -1)), s)))
    # equal values in every representation
    for _ in range(60):
        c, s = G.dec(rng)
        reps = G.representations(c, s)
        for x in reps:
            y = rng.choice(reps)
            out.append("cmpall vv %s %s" % (G.fD(*x), G.fD(*y)))
            out.append("minmax %s %s" % (G.fD(*x), G.fD(*y)))
            out.append("rk_cmp %s %s" % (G.fD(*x), G.fD(*y)))
            out.append("rk_rt %s" % G.fD(*x))
    # ints at type bounds against Decimals of every scale
    for ty in OP_INT_TYPES:
        lo, hi = INT_TYPES[ty]
        for v in (lo, lo + 1, hi, hi - 1, 0, 1, -1 if lo < 0 else 2):
            for s in (0, 1, 9, 17, 18):
                cands = [v * P10[s] + d for d in (-1, 0, 1)] + [M, -M, 0, 1, -1, M // P10[s], -(M // P10[s])]
                for c in cands:
                    if abs(c) > M:
                        continue
                    out.append("cmpall vv %s %s" % (G.fD(c, s), G.fI(ty, v)))
                    out.append("cmpall vv %s %s" % (G.fI(ty, v), G.fD(c, s)))
    # constants
    for c, s in ((0, 0), (1, 0), (-1, 0), (M, 0), (-M, 0), (1, 18), (0, 18), (P10[18], 18)):
        out.append("rk_rt %s" % G.fD(c, s))
    return out


def live_structures(rng, n_lists):
    out = []
    for _ in range(n_lists):
        base = [G.dec(rng) for _ in range(rng.randrange(2, 7))]
        items = []
        for c, s in base:
            reps = G.representations(c, s)
            for _ in range(rng.randrange(1, 6)):
                items.append(rng.choice(reps))
            # near neighbours
            if abs(c) < M:
                items.append((c + 1, s))
        # huge / tiny mixes force the overflow arms inside sort
        items.append((rng.choice((M, -M)), rng.randrange(0, 19)))
        items.append((rng.choice((1, -1, 0)), 18))
        rng.shuffle(items)
        out.append("%s %s" % (rng.choice(("sort", "btree")), " ".join(G.fD(*t) for t in items)))
    return out


_CON = None


def gen(rng, tier, shard, batch):
    global _CON
    reqs = []
    if batch == 0:
        if _CON is None:
            _CON = constructed(random.Random(20260108))
        reqs += _CON[shard::E.NCPU]
        for a, p, b, q in C.small_grid(tier, shard, E.NCPU):
            reqs.append("cmpall vv %s %s" % (G.fD(a, p), G.fD(b, q)))
    reqs += live_structures(rng, 150 if tier == "quick" else 600)
    for _ in range(N_RANDOM[tier]):
        k = rng.random()
        if k < 0.45:
            a, p = G.dec(rng)
            if rng.random() < 0.5:
                # same value or close neighbour in another representation
                reps = G.representations(a, p)
                b, q = rng.choice(reps)
                if rng.random() < 0.5 and abs(b) < M:
                    b += rng.choice((-1, 1))
            else:
                b, q = G.dec(rng)
            reqs.append("%s %s %s" % (rng.choice(("cmpall vv", "minmax", "rk_cmp")), G.fD(a, p), G.fD(b, q)))
            if rng.random() < 0.1:
                args = [(a, p), (b, q), rng.choice((G.dec(rng), rng.choice(G.representations(a, p)), (b, q)))]
                rng.shuffle(args)
                reqs.append("clamp %s %s %s" % tuple(G.fD(*t) for t in args))
        elif k < 0.9:
            ltok, rtok = C.shape_operands(rng, rng.choice(("Di", "iD")))
            if rng.random() < 0.5:
                # Decimal equal / adjacent to the int
                it = ltok if ltok[0] != "D" else rtok
                ty, v = it.split(":")
                s = G.scale(rng)
                c = int(v) * P10[s] + rng.choice((-1, 0, 0, 1))
                if abs(c) <= M:
                    d = G.fD(c, s)
                    ltok, rtok = (d, it) if ltok[0] == "D" else (it, d)
            reqs.append("cmpall vv %s %s" % (ltok, rtok))
        else:
            reqs.append("%s %s" % (rng.choice(("rk_rt", "rk_tuple")), G.fD(*G.dec(rng))))
    return reqs


def tool_requests(rng, n):
    out = []
    for c, s in ((0, 0), (1, 0), (-1, 0), (M, 0), (-M, 0), (1, 18), (0, 18), (P10[18], 18), (M, 18), (-M, 18)):
        out.append("rk_rt %s" % G.fD(c, s))
    while len(out) < n:
        a, p = G.dec(rng)
        k = rng.random()
        if k < 0.2:
            out.append("rk_rt %s" % G.fD(a, p))
        elif k < 0.4:
            out.append("rk_tuple %s" % G.fD(a, p))
        elif k < 0.8:
            b, q = rng.choice(G.representations(a, p)) if rng.random() < 0.5 else G.dec(rng)
            out.append("rk_cmp %s %s" % (G.fD(a, p), G.fD(b, q)))
        else:
            out.append("cmpall vv %s %s" % (G.fD(a, p), G.fD(*G.dec(rng))))
    return out


def main(tier, seed):
    """Value monitor on all builds, then the manual unsafe rkyv impl (feature packed) and the derived one
    under AddressSanitizer and Miri."""
    import os
    import time
    from .. import build as B
    t0 = time.time()
    mod = sys.modules[__name__]
    code, ev = E.run_property(mod, tier, seed)
    rng = random.Random(seed * 7919 + 8)
    wdir = B.workdir(ID)
    tools = []
    for feats, tag in ((("full", "packed"), "packed"), (("full",), "derived")):
        try:
            asan = B.build("release", feats, kind="asan")
            env = dict(os.environ)
            env["ASAN_OPTIONS"] = "halt_on_error=1:abort_on_error=0:detect_leaks=0:exitcode=77"
            tools.append(E.run_tool(mod, "asan-" + tag, [asan], env, tool_requests(rng, 20000 if tier == "quick" else 200000), wdir, 900))
        except B.BuildError as e:
            tools.append({"tool": "asan-" + tag, "status": "inconclusive", "why": "build failed: " + str(e)[-300:]})
        if tier == "quick" and tag == "derived":
            continue
        cmd, env = B.miri_cmd(feats, release=False)
        env["MIRIFLAGS"] = "-Zmiri-disable-isolation"
        tools.append(E.run_tool(mod, "miri-" + tag, cmd + ["--"], env, tool_requests(rng, 60 if tier == "quick" else 600), wdir, 2400))
    code = E.fold_tool_runs(ID, code, ev, tools, wdir, tier, seed)
    ev["wall_s"] = round(time.time() - t0, 2)
    E.write_evidence(ID, ev)
    return code
