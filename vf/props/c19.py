"""C19 - the default rounding mode is per thread and starts as HalfEven."""

import concurrent.futures
import hashlib
import os
import random
import subprocess
import sys
import time

from .. import build as B
from .. import engine as E
from ..oracle import MODES, MODE_INDEX, DEFAULT_MODE
from . import c02, c03, c04, c05, c11, c12, c13

ID = "C19"
TITLE = "The default rounding mode is per thread and starts as HalfEven"
RULE = ("multi-threaded workloads (`probe --threads <spec>`): 16..64 threads, each following a seeded script of "
        "set_default(mode) / default() / fingerprint batteries of rounding operations (round, div_rounded, mul_rounded, "
        "*, /, Display with precision; results differ between all 8 modes), with yields, short sleeps and nested "
        "spawns between them; every event carries the thread path, a per-thread and a global sequence number and the "
        "mode the rounding kernel actually read (hook). The monitor replays each thread's own history: every default() "
        "and every operation result must equal the oracle under the mode last set by that same thread, HalfEven for a "
        "new thread whatever its parent set, and still the thread's own mode while the thread shuts down (a driver-side "
        "thread-local destructor asks for default() and rounds twice at thread exit). Besides the big stress runs, hundreds "
        "of tiny workloads run in FRESH processes (every sequence of up to 3 set_default calls in one thread; two-thread "
        "duets A selects X / B selects Y, possibly redundantly / A rounds again / B selects Z) so that process-wide state "
        "such as counters, flags or caches is explored from scratch. Runs natively (dev + release), under Miri with different scheduler seeds "
        "(data-race and UB detection, distinct interleavings) and under ThreadSanitizer (-Zbuild-std). Non-trivial = "
        "operation executed by a thread whose mode differs from the mode of the thread that ran immediately before it "
        "in the global order, or from HalfEven")
BUDGET = {"quick": 60, "thorough": 900}

BATTERY = [
    "round D25:1 0", "round D-25:1 0", "round D35:1 0", "round D21:1 0", "round D-21:1 0", "round D205:2 1",
    "round D-205:2 1", "round D26:1 0", "round D-26:1 0", "cround D15:1 0", "cround D-4:1 0",
    "divr vv D1:0 D3:0 2", "divr vv D-1:0 D3:0 2", "divr vv D1:0 D8:0 2", "divr vv D-3:0 D8:0 2", "divr vv i32:7 i32:2 0",
    "mulr vv D15:1 D15:1 1", "mulr vv D-15:1 D15:1 1", "mulr vv D11:1 D11:1 1",
    "mul vv D5:1 D1:18", "mul vv D-5:1 D1:18", "mul vv D1000000000000000005:18 D1000000000000000005:18",
    "mul vv D-3:1 D1:18", "div vv D1:18 D2:0", "div vv D-1:18 D2:0", "div vv D1:0 D3:0", "div vv D-2:0 D3:0",
    "quant vv D125:2 D5:1", "quant vv D-101:2 u8:2",
    "divr vv D1:18 D1000000000000000000000:0 0", "divr vv D-1:18 D1000000000000000000000:0 0",
    "divr vv D3:0 D-4:0 1", "divr vv D1:0 D-4:0 2", "tof64 D1:1", "fromf64 4599075939470750515",
    "round D1:18 -25", "round D-1:18 -25", "cround D-7:0 -39", "cround D3:2 -38",
    "fmt none - 1 D25:2", "fmt none - 0 D-15:1", "fmt plus 8 1 D-205:2", "fmt none - 1 D-21:2", "fmt zero 6 0 D26:1",
]
OWNER = {"round": c05, "cround": c05, "divr": c04, "mulr": c04, "quant": c04, "mul": c02, "div": c03, "fmt": c11,
         "tof64": c12, "fromf64": c13}


def expected_fingerprint(mode):
    """For the selftest: battery results must tell all modes apart."""
    fp = []
    for req in BATTERY:
        toks = req.split(" ")
        fp.append(OWNER[toks[0]].check(toks, E.Resp("N"), mode, "selftest")[3])
    return tuple(fp)


def battery_selftest():
    fps = {m: expected_fingerprint(m) for m in MODES}
    if len(set(fps.values())) != len(MODES):
        raise RuntimeError("C19 battery does not distinguish all rounding modes")


EXIT_BATTERY = ["round D25:1 0", "divr vv D-1:0 D3:0 2"]       # executed by the driver's thread-exit probe
SMALL = ["round D25:1 0", "round D-205:2 1", "divr vv D1:0 D8:0 2", "mul vv D-5:1 D1:18", "fmt none - 1 D-21:2",
         "round D-1:18 -25", "divr vv D-1:0 D3:0 2", "div vv D-2:0 D3:0"]
MIRI_BATTERY = ["round D25:1 0", "round D-205:2 1", "divr vv D1:0 D8:0 2", "mul vv D-5:1 D1:18",
                "div vv D-2:0 D3:0", "fmt none - 1 D-21:2"]


def make_spec(rng, n_main, steps_per_thread, depth=2, batteries=3, sleeps=True, pool=None):
    lines = []
    pool = pool or BATTERY
    # batteries: b0 = full, others = random subsets
    bats = {"b0": list(pool)}
    for i in range(1, batteries):
        k = rng.randrange(min(6, len(pool) - 1), len(pool))
        bats["b%d" % i] = rng.sample(pool, k)
    for bid, reqs in bats.items():
        for r in reqs:
            lines.append("battery %s %s" % (bid, r))
    scripts = {}

    def script(level):
        sid = "s%d" % len(scripts)
        scripts[sid] = None
        steps = ["get", "run:%s" % rng.choice(list(bats))]
        for _ in range(steps_per_thread):
            k = rng.random()
            if k < 0.3:
                steps.append("set:%s" % rng.choice(MODES))
                if rng.random() < 0.5:
                    steps.append("yield")
                if rng.random() < 0.3:
                    steps.append("get")
            elif k < 0.65:
                steps.append("run:%s" % rng.choice(list(bats)))
            elif k < 0.75:
                steps.append("yield")
            elif k < 0.82 and sleeps:
                steps.append("sleep:%d" % rng.randrange(1, 200))
            elif k < 0.9 and level < depth:
                steps.append("spawn:%s" % script(level + 1))
            elif k < 0.95:
                steps.append("get")
            else:
                steps.append("join")
        steps += ["get", "run:b0"]
        scripts[sid] = steps
        return sid

    mains = [script(0) for _ in range(n_main)]
    for sid, steps in scripts.items():
        lines.append("script %s %s" % (sid, " ".join(steps)))
    lines.append("main " + " ".join(mains))
    return "\n".join(lines) + "\n", bats


def make_swarm_spec(rng, n_workers, n_watchers):
    """Hundreds of short-lived threads that set a non-default mode and exit, plus long-lived watcher threads
    that keep checking their own mode (thread-count dependent state, leaked per-thread bookkeeping)."""
    lines = []
    small = ["round D25:1 0", "round D-205:2 1", "divr vv D1:0 D8:0 2", "mul vv D-5:1 D1:18", "fmt none - 1 D-21:2"]
    bats = {"b0": list(BATTERY), "bs": small}
    for bid, reqs in bats.items():
        for r in reqs:
            lines.append("battery %s %s" % (bid, r))
    scripts = {}
    mains = []
    for i in range(n_watchers):
        m = rng.choice([x for x in MODES if x != DEFAULT_MODE])
        steps = ["get", "set:%s" % m]
        for _ in range(60):
            steps += ["run:bs", "sleep:%d" % rng.randrange(100, 600), "get"]
        steps += ["run:b0"]
        scripts["w%d" % i] = steps
        mains.append("w%d" % i)
    # spawner threads create the workers in waves, so that only some of them are alive at a time
    per_spawner = 25
    n_spawners = (n_workers + per_spawner - 1) // per_spawner
    wk = 0
    for j in range(n_spawners):
        steps = ["get"]
        for _ in range(per_spawner):
            m = rng.choice(MODES)
            sid = "k%d" % wk
            wk += 1
            scripts[sid] = ["get", "run:bs", "set:%s" % m, "run:bs", "get"] + (["set:RoundHalfEven"] if rng.random() < 0.2 else [])
            steps += ["spawn:%s" % sid]
            if rng.random() < 0.3:
                steps += ["join"]
        steps += ["join", "run:bs"]
        scripts["p%d" % j] = steps
        mains.append("p%d" % j)
    for sid, steps in scripts.items():
        lines.append("script %s %s" % (sid, " ".join(steps)))
    lines.append("main " + " ".join(mains))
    return "\n".join(lines) + "\n", bats


def make_churn_spec(rng, n_threads):
    """Long accumulation: one long-lived thread with a non-default mode creates n_threads short-lived threads ONE AFTER
    THE OTHER, each of which selects a non-default mode and ends without resetting it; after every one of them the
    long-lived thread asks for its own mode again (and rounds now and then). Per-thread bookkeeping that is only ever
    incremented - a counter of customised threads in 8 or 16 bits - wraps on the way (n_threads > 65536)."""
    small = ["round D25:1 0", "round D-205:2 1"]
    bats = {"bs": small}
    m0 = rng.choice([x for x in MODES if x != DEFAULT_MODE])
    kids = {}
    for i, m in enumerate([x for x in MODES if x != DEFAULT_MODE]):
        kids["c%d" % i] = ["set:%s" % m]
    steps = ["get", "set:%s" % m0, "get"]
    names = list(kids)
    for i in range(n_threads):
        steps += ["spawn:%s" % names[i % len(names)], "join", "get"]
        if i % 4096 == 4095 or 65530 <= i <= 65540 or 250 <= i <= 260:
            steps.append("run:bs")
    steps.append("run:bs")
    scripts = dict(kids)
    scripts["main0"] = steps
    return _spec_text(bats, scripts, ["main0"]), bats


def _spec_text(bats, scripts, mains):
    lines = []
    for bid, reqs in bats.items():
        for r in reqs:
            lines.append("battery %s %s" % (bid, r))
    for sid, steps in scripts.items():
        lines.append("script %s %s" % (sid, " ".join(steps)))
    lines.append("main " + " ".join(mains))
    return "\n".join(lines) + "\n"


def small_state_specs(rng, n_duets):
    """Many tiny workloads, each run in a FRESH process (process-wide state such as counters, flags or caches
    starts from scratch every time):
      solo  - one thread, every sequence of up to three set_default calls over the 8 modes (584 sequences),
              a battery and default() after each set;
      duet  - thread A selects X and rounds, thread B (a little later) selects Y - possibly redundantly
              RoundHalfEven - and rounds, A rounds again, B selects Z, A rounds again (sleeps order the steps);
              all 512 (X, Y, Z) combinations in the thorough tier, a seeded sample in quick."""
    bats = {"bs": SMALL}
    specs = []
    seqs = [[a] for a in MODES] + [[a, b] for a in MODES for b in MODES] + [[a, b, c] for a in MODES for b in MODES for c in MODES]
    for seq in seqs:
        steps = ["get"]
        for m in seq:
            steps += ["set:%s" % m, "get", "run:bs"]
        specs.append(("solo-" + "-".join(x[5:] for x in seq), _spec_text(bats, {"s": steps}, ["s"]), bats))
    combos = [(x, y, z) for x in MODES for y in MODES for z in MODES]
    if n_duets < len(combos):
        combos = rng.sample(combos, n_duets)
    for x, y, z in combos:
        a = ["get", "set:%s" % x, "run:bs", "sleep:3000", "run:bs", "get", "sleep:3000", "run:bs", "get"]
        b = ["sleep:1500", "get", "set:%s" % y, "run:bs", "get", "sleep:3000", "set:%s" % z, "run:bs", "get"]
        specs.append(("duet-%s-%s-%s" % (x[5:], y[5:], z[5:]), _spec_text(bats, {"a": a, "b": b}, ["a", "b"]), bats))
    return specs


def check_log(text, bats, tool):
    """Replay every thread's own history. Returns dict with counts / violations."""
    res = {"events": 0, "ops": 0, "sets": 0, "gets": 0, "threads": 0, "violations": [], "errors": [],
           "nontrivial": set(), "mode_sequences": set(), "interleaving": None, "switches": 0,
           "kernel_mode_reads": 0}
    lines = [l for l in text.split("\n") if l]
    if not lines or not lines[-1].startswith("DONE"):
        res["errors"].append("log incomplete (no DONE line)")
        return res
    per_thread = {}
    order = []
    for l in lines[:-1]:
        parts = l.split(" ", 4)
        if len(parts) < 4:
            res["errors"].append("bad log line %r" % l)
            continue
        path, lseq, gseq, kind = parts[0], int(parts[1]), int(parts[2]), parts[3]
        rest = parts[4] if len(parts) > 4 else ""
        per_thread.setdefault(path, []).append((lseq, gseq, kind, rest))
        order.append((gseq, path))
    order.sort()
    res["threads"] = len(per_thread)
    last_mode_of_prev = {}
    # global view: which thread ran just before (to count hostile neighbours)
    prev_path = {}
    pp = None
    for gseq, path in order:
        prev_path[gseq] = pp
        if pp is not None and pp != path:
            res["switches"] += 1
        pp = path
    res["interleaving"] = hashlib.blake2b(" ".join(p for _, p in order).encode(), digest_size=8).hexdigest()
    cur_mode = {}
    # replay in global order so that we know every thread's mode at any time
    events = []
    for path, evs in per_thread.items():
        evs.sort()
        body = [e[0] for e in evs if e[0] < 1000000]
        if body != list(range(len(body))):
            res["errors"].append("thread %s: local sequence numbers not contiguous" % path)
        for e in evs:
            events.append((e[1], path, e))
    events.sort()
    seqs = {}
    for gseq, path, (lseq, _g, kind, rest) in events:
        mode = cur_mode.get(path, DEFAULT_MODE)
        res["events"] += 1
        if kind == "set":
            cur_mode[path] = rest.strip()
            seqs.setdefault(path, []).append(rest.strip())
            res["sets"] += 1
            continue
        if kind == "get":
            res["gets"] += 1
            if rest.strip() != mode:
                res["violations"].append({"thread": path, "seq": lseq, "what": "default() returned %s, this thread last set %s" % (rest.strip(), mode)})
            continue
        if kind != "op":
            res["errors"].append("unknown event kind %r" % kind)
            continue
        bid, idx, resp_text = rest.split(" ", 2)
        req = EXIT_BATTERY[int(idx)] if bid == "exit" else bats[bid][int(idx)]
        toks = req.split(" ")
        resp = E.Resp(resp_text)
        res["ops"] += 1
        verdict, _label, _nt, expected = OWNER[toks[0]].check(toks, resp, mode, tool)
        pp = prev_path.get(gseq)
        hostile = mode != DEFAULT_MODE or (pp is not None and pp != path and cur_mode.get(pp, DEFAULT_MODE) != mode)
        if hostile:
            res["nontrivial"].add((path, lseq))
        if resp.mode != 255:
            res["kernel_mode_reads"] += 1
            if resp.mode != MODE_INDEX[mode]:
                res["violations"].append({"thread": path, "seq": lseq, "request": req, "what": "rounding kernel read mode %s, this thread's mode is %s" % (MODES[resp.mode] if resp.mode < 8 else resp.mode, mode)})
                continue
        if verdict not in ("ok", "dc"):
            res["violations"].append({"thread": path, "seq": lseq, "request": req, "event": resp.raw, "expected": expected,
                                      "what": "result is not the one for this thread's mode %s" % mode})
    for path, s in seqs.items():
        res["mode_sequences"].add((path, tuple(s)))
    return res


def run_native(binary, spec_text, wdir, name, env=None, timeout=600):
    spec = os.path.join(wdir, name + ".spec")
    open(spec, "w").write(spec_text)
    p = subprocess.run([binary, "--threads", spec], stdout=subprocess.PIPE, stderr=subprocess.PIPE, text=True,
                       timeout=timeout, env=env)
    return p, spec


def main(tier, seed):
    t0 = time.time()
    battery_selftest()
    wdir = B.workdir(ID)
    rng = random.Random(seed * 65537 + 19)
    runs = []
    viol = []
    errors = []
    total = {"events": 0, "ops": 0, "threads": 0, "nontrivial": 0, "mode_sequences": 0, "switches": 0, "kernel_mode_reads": 0}
    interleavings = set()
    samples = []

    def account(name, res, spec_path):
        runs.append({"run": name, "events": res["events"], "ops": res["ops"], "threads": res["threads"],
                     "sets": res["sets"], "gets": res["gets"], "context_switches_in_global_order": res["switches"],
                     "interleaving": res["interleaving"], "violations": len(res["violations"]), "errors": res["errors"][:2]})
        for k in ("events", "ops", "threads", "switches", "kernel_mode_reads"):
            total[k] += res[k]
        total["nontrivial"] += len(res["nontrivial"])
        total["mode_sequences"] += len(res["mode_sequences"])
        interleavings.add(res["interleaving"])
        for v in res["violations"][:10]:
            v = dict(v)
            v["run"] = name
            v["spec"] = spec_path
            viol.append(v)
        errors.extend(res["errors"])

    # 1. native stress, dev + release
    n_rounds = 2 if tier == "quick" else 12
    for profile in ("dev", "release"):
        binary = B.build(profile, ())
        for r in range(n_rounds):
            spec_text, bats = make_spec(rng, rng.choice((16, 32, 64)), 25 if tier == "quick" else 40,
                                        depth=1 if tier == "quick" else 2)
            name = "native-%s-%d" % (profile, r)
            try:
                p, spec = run_native(binary, spec_text, wdir, name)
            except subprocess.TimeoutExpired:
                errors.append("watchdog: %s" % name)
                continue
            if p.returncode != 0:
                errors.append("%s exited with %d: %s" % (name, p.returncode, p.stderr[-300:]))
                continue
            res = check_log(p.stdout, bats, name)
            account(name, res, spec)
            if not samples:
                samples = [l for l in p.stdout.split("\n")[:400] if " op " in l][:3] + [l for l in p.stdout.split("\n")[:200] if " set " in l][:2]
        # a swarm of short-lived threads (more than 256 custom-mode threads come and go) next to long-lived watchers
        spec_text, bats = make_swarm_spec(rng, 600 if tier == "quick" else 2000, 4)
        name = "swarm-%s" % profile
        try:
            p, spec = run_native(binary, spec_text, wdir, name)
            if p.returncode != 0:
                errors.append("%s exited with %d: %s" % (name, p.returncode, p.stderr[-300:]))
            else:
                account(name, check_log(p.stdout, bats, name), spec)
        except subprocess.TimeoutExpired:
            errors.append("watchdog: %s" % name)
    # 1a'. long accumulation: 66 000 customised threads come and go one after the other under a long-lived observer
    binary = B.build("release", ())
    spec_text, bats = make_churn_spec(rng, 66000 if tier == "quick" else 140000)
    try:
        p, spec = run_native(binary, spec_text, wdir, "churn-release", timeout=900)
        if p.returncode != 0:
            errors.append("churn-release exited with %d: %s" % (p.returncode, p.stderr[-300:]))
        else:
            account("churn-release", check_log(p.stdout, bats, "churn-release"), spec)
    except subprocess.TimeoutExpired:
        errors.append("watchdog: churn-release")
    # 1a''. very many mode changes in one thread (bookkeeping that counts set_default calls): 2^32 + 64 calls (~12 s in
    #       release), default() and one rounding checked at every 2^k-th and every 65536th call
    n_spin = (1 << 32) + 64
    spin_req = os.path.join(wdir, "setspin.req")
    open(spin_req, "w").write("setspin %d\ngetmode\nround D25:1 0\n" % n_spin)
    try:
        p = subprocess.run([binary, spin_req], stdout=subprocess.PIPE, stderr=subprocess.PIPE, text=True, timeout=1200)
        out = [l.split(" ~")[0] for l in p.stdout.strip().split("\n")]
        total["events"] += 3
        if p.returncode != 0:
            errors.append("setspin exited with %d" % p.returncode)
        elif out[:3] != ["S 0 0", "M RoundHalfEven", "V 2 0"]:
            viol.append({"run": "setspin-release", "spec": spin_req, "what": "after %d set_default calls: %r (expected S 0 0 = no mismatch between the mode set and default() / the rounding result, then M RoundHalfEven, V 2 0)" % (n_spin, out[:3])})
        runs.append({"run": "setspin-release", "events": 3, "set_default_calls": n_spin})
    except subprocess.TimeoutExpired:
        errors.append("watchdog: setspin")
    phase_churn = round(time.time() - t0, 1)
    # 1b. small-state workloads, each in a fresh process
    t_small = time.time()
    binary = B.build("dev", ())
    specs = small_state_specs(rng, 160 if tier == "quick" else 512)
    if tier == "quick":
        solos = [sp for sp in specs if sp[0].startswith("solo")]
        duets = [sp for sp in specs if sp[0].startswith("duet")]
        specs = solos[:72] + rng.sample(solos[72:], 120) + duets
    small = {"runs": 0, "events": 0, "ops": 0, "violations": 0}

    def run_small(sp):
        name, text, bats_ = sp
        spec_path = os.path.join(wdir, "small-%s.spec" % name)
        open(spec_path, "w").write(text)
        try:
            p = subprocess.run([binary, "--threads", spec_path], stdout=subprocess.PIPE, stderr=subprocess.PIPE,
                               text=True, timeout=120)
        except subprocess.TimeoutExpired:
            return name, None, spec_path, bats_
        return name, p, spec_path, bats_
    with concurrent.futures.ThreadPoolExecutor(E.NCPU) as ex:
        for name, p, spec_path, bats_ in ex.map(run_small, specs):
            if p is None or p.returncode != 0:
                errors.append("%s failed: %s" % (name, "watchdog" if p is None else p.stderr[-200:]))
                continue
            res = check_log(p.stdout, bats_, name)
            small["runs"] += 1
            small["events"] += res["events"]
            small["ops"] += res["ops"]
            small["violations"] += len(res["violations"])
            for k in ("events", "ops", "threads", "switches", "kernel_mode_reads"):
                total[k] += res[k]
            total["nontrivial"] += len(res["nontrivial"])
            total["mode_sequences"] += len(res["mode_sequences"])
            interleavings.add(res["interleaving"])
            errors.extend(res["errors"])
            for v in res["violations"][:3]:
                v = dict(v)
                v["run"] = name
                v["spec"] = spec_path
                viol.append(v)
    # 1c. environment independence: which environment variables does a run consult (LD_PRELOAD getenv logger)? For
    #     every name outside the runtime's own, the initial-mode workloads are repeated with it set to plausible values
    env_names = []
    so = B.getenv_shim()
    if so is None:
        env_names = ["<monitor skipped: no C compiler>"]
    else:
        probe_specs = [sp for sp in specs if sp[0].startswith("solo")][:6] + [sp for sp in specs if sp[0].startswith("duet")][:4]
        logf = os.path.join(wdir, "getenv.log")
        if os.path.exists(logf):
            os.remove(logf)
        e = dict(os.environ)
        e["LD_PRELOAD"] = so
        e["VERIF_GETENV_LOG"] = logf
        for name, text, bats_ in probe_specs:
            try:
                p, spec_path = run_native(binary, text, wdir, "envscan-" + name, env=e, timeout=120)
            except subprocess.TimeoutExpired:
                errors.append("watchdog: envscan-%s" % name)
                continue
            if p.returncode != 0:
                errors.append("envscan-%s exited with %d" % (name, p.returncode))
                continue
            account("envscan-" + name, check_log(p.stdout, bats_, "envscan-" + name), spec_path)
        names = set(l.strip() for l in open(logf)) if os.path.exists(logf) else set()
        env_names = ["<scan done>"] + sorted(names)
        for n in sorted(x for x in names if x and not E.ENV_ALLOW.match(x)):
            for val in E.ENV_VALUES:
                e2 = dict(os.environ)
                e2[n] = val
                for name, text, bats_ in probe_specs[:4]:
                    rn = "env-%s=%s-%s" % (n, val, name)
                    try:
                        p, spec_path = run_native(binary, text, wdir, rn, env=e2, timeout=120)
                    except subprocess.TimeoutExpired:
                        errors.append("watchdog: " + rn)
                        continue
                    if p.returncode == 0:
                        account(rn, check_log(p.stdout, bats_, rn), spec_path)
    phase_small = round(time.time() - t_small, 1)
    phase = {"native": round(time.time() - t0, 1), "small_state": phase_small, "native_incl_churn_at": phase_churn}
    # 2. Miri, different scheduler seeds
    n_seeds = 8 if tier == "quick" else 64
    cmd, env = B.miri_cmd(())
    tool_reports = []
    spec_text, bats = make_spec(rng, 3, 3, depth=1, batteries=2, sleeps=False, pool=MIRI_BATTERY)
    # shrink batteries for the interpreter
    spec = os.path.join(wdir, "miri.spec")
    open(spec, "w").write(spec_text)
    # build once (first invocation compiles), then run seeds in parallel
    def miri_seed(s):
        e = dict(env)
        e["MIRIFLAGS"] = "-Zmiri-disable-isolation -Zmiri-seed=%d -Zmiri-preemption-rate=0.05" % s
        try:
            p = subprocess.run(cmd + ["--", "--threads", spec], env=e, stdout=subprocess.PIPE, stderr=subprocess.PIPE,
                               text=True, timeout=1500, cwd=B.DRIVER)
        except subprocess.TimeoutExpired:
            return s, None, "watchdog"
        return s, p, None
    first = miri_seed(seed * 1000)
    results = [first]
    with concurrent.futures.ThreadPoolExecutor(E.NCPU) as ex:
        results += list(ex.map(miri_seed, [seed * 1000 + i for i in range(1, n_seeds)]))
    for s, p, err in results:
        name = "miri-seed-%d" % s
        if p is None:
            errors.append("%s: %s" % (name, err))
            continue
        rep = E.classify_tool_output(p.stderr)
        if rep is not None:
            tool_reports.append({"run": name, "kind": rep["kind"], "in_repo": rep["in_repo"], "snippet": rep["snippet"][:1200]})
            if rep["kind"] == "miri-unsupported":
                errors.append("%s: unsupported operation" % name)
            elif rep["in_repo"]:
                viol.append({"run": name, "spec": spec, "what": "Miri report: " + rep["snippet"][:600]})
            continue
        if p.returncode != 0:
            errors.append("%s exited with %d: %s" % (name, p.returncode, p.stderr[-300:]))
            continue
        res = check_log(p.stdout, bats, name)
        account(name, res, spec)
    phase["miri"] = round(time.time() - t0 - phase["native"], 1)
    t_tsan = time.time()
    # 3. ThreadSanitizer
    if True:
        try:
            tsan = B.build("dev", (), kind="tsan")
            e = dict(os.environ)
            e["TSAN_OPTIONS"] = "halt_on_error=0:exitcode=66"
            for r in range(1 if tier == "quick" else 6):
                spec_text, bats = make_spec(rng, 32, 25 if tier == "quick" else 60, depth=1 if tier == "quick" else 2)
                name = "tsan-%d" % r
                p, spec = run_native(tsan, spec_text, wdir, name, env=e, timeout=1500)
                rep = E.classify_tool_output(p.stderr)
                if rep is not None:
                    tool_reports.append({"run": name, "kind": rep["kind"], "in_repo": rep["in_repo"], "snippet": rep["snippet"][:1200]})
                    if rep["in_repo"]:
                        viol.append({"run": name, "spec": spec, "what": "TSan report: " + rep["snippet"][:600]})
                    continue
                if p.returncode != 0:
                    errors.append("%s exited with %d" % (name, p.returncode))
                    continue
                account(name, check_log(p.stdout, bats, name), spec)
        except (B.BuildError, subprocess.TimeoutExpired) as ex_:
            errors.append("tsan: %s" % str(ex_)[-300:])
    phase["tsan"] = round(time.time() - t_tsan, 1)
    # verdict
    code = 0
    lines = []
    if viol:
        code = 1
        rp = os.path.join(B.ROOT, "replays", "C19-%s-%d.spec" % (tier, seed))
        src = viol[0].get("spec")
        with open(rp, "w") as f:
            f.write("# property C19\n# run %s: %s\n" % (viol[0].get("run"), str(viol[0].get("what"))[:800].replace("\n", "\n# ")))
            if src and os.path.exists(src):
                f.write(open(src).read())
        for v in viol[:5]:
            lines.append("  violating event: [%s] thread %s #%s %s -> %s ; %s" % (v.get("run"), v.get("thread"), v.get("seq"), v.get("request", ""), v.get("event", ""), str(v.get("what"))[:300]))
        lines.append("VIOLATION property=C19 replay=%s" % rp)
    elif errors:
        code = 3
        lines.append("INCONCLUSIVE property=C19 %s" % errors[:3])
    elif total["ops"] == 0:
        code = 3
        lines.append("INCONCLUSIVE property=C19 nothing observed")
    cov = {
        "evaluations": total["events"],
        "distinct_nontrivial": total["nontrivial"],
        "rule": RULE,
        "samples": samples or ["<none>"],
        "exhaustive": False,
        "operations_checked": total["ops"],
        "threads": total["threads"],
        "distinct_thread_mode_sequences": total["mode_sequences"],
        "context_switches_in_global_order": total["switches"],
        "kernel_mode_reads_checked": total["kernel_mode_reads"],
        "distinct_interleavings_observed": len(interleavings),
        "runs": runs,
        "small_state_runs": small,
        "tool_reports": tool_reports,
    }
    ev = {"property_id": ID, "tier": tier, "seed": seed, "level": "exploration", "coverage": cov,
          "assumptions": ["thread-locals make cross-thread interference impossible by construction; the monitor can only show absence on the explored schedules",
                          "the global sequence number is taken after the operation returned (recording at the client boundary)"],
          "wall_s": round(time.time() - t0, 2), "violations": len(viol),
          "verdict": {0: "held on everything observed", 1: "violated", 3: "inconclusive"}[code]}
    E.write_evidence(ID, ev)
    for l in lines:
        print(l)
    ev["coverage"]["phase_wall_s"] = phase
    ev["coverage"]["environment_variables_consulted"] = env_names
    E.write_evidence(ID, ev)
    if tool_reports:
        kinds = {}
        for r in tool_reports:
            k = r["kind"] + ("" if r["in_repo"] else "(foreign)")
            kinds[k] = kinds.get(k, 0) + 1
        print("C19 tool reports: %s; first: %s" % (kinds, tool_reports[0]["snippet"][:300].replace("\n", " | ")))
    print("C19 %s tier=%s seed=%d: %d events (%d operations) of %d threads in %d runs, %d distinct interleavings, %.1fs -> %s"
          % (TITLE, tier, seed, total["events"], total["ops"], total["threads"], len(runs), len(interleavings), time.time() - t0, ev["verdict"]))
    return code


def replay(path):
    """Re-run a recorded spec natively (dev + release) and under one Miri seed."""
    text = "".join(l for l in open(path) if not l.startswith("#"))
    bats = {}
    for l in text.split("\n"):
        if l.startswith("battery "):
            _, bid, req = l.split(" ", 2)
            bats.setdefault(bid, []).append(req)
    wdir = B.workdir(ID)
    bad = 0
    for profile in ("dev", "release"):
        binary = B.build(profile, ())
        for i in range(5):
            p, _ = run_native(binary, text, wdir, "replay")
            res = check_log(p.stdout, bats, "replay")
            for v in res["violations"][:3]:
                print("  [%s] %s" % (profile, v))
            bad += len(res["violations"])
    if bad:
        print("VIOLATION property=C19 replay=%s" % path)
        return 1
    print("replay of %s: no violation in 10 native runs" % path)
    return 0
