"""C13 - f64/f32 to Decimal yields the nearest 18-digit Decimal or a precise error."""

import os
import random
import subprocess
import sys
import time

from .. import build as B
from .. import engine as E
from .. import gen as G
from .. import hard as H
from ..oracle import M, P10, float_to_decimal, f64_bits, f32_bits
from . import common as C

ID = "C13"
TITLE = "f64/f32 to Decimal yields the nearest 18-digit Decimal or a precise error"
RULE = ("requests `fromf64|fromf32 <bit pattern>`; oracle: exact dyadic value rounded half-even to 18 digits, "
        "normalised, NaN -> NotANumber, inf -> InfiniteValue, |v| >= 2^127 -> InternalOverflow (v = -2^127 is "
        "don't-care); constructed: k/2^19 with odd k (the only exact ties), k/2^j for j = 1..60, neighbours of those "
        "floats, every exponent boundary, subnormals, +-0, NaN payloads, infinities; plus seeded random bit patterns "
        "(uniform bits and uniform exponent). In-process exhaustive monitor `probe --sweep-f32` over f32 bit "
        "patterns with an exact u128 reference (quick: a 2^27 window chosen by the seed plus both edge windows; "
        "thorough: all 2^32), sampled patterns cross-checked against the Python oracle; `probe --sweep-f64-grid`: every f64 exponent x every "
        "pattern of the 12 (thorough: 17) leading fraction bits x tails {0, 1, half, all ones} x sign, same reference. Non-trivial = fractional "
        "value (negative binary exponent) or overflow boundary")
BUILDS = {"quick": [("dev", ()), ("release", ())],
          "thorough": [("dev", ()), ("release", ()), ("release", ("packed",)), ("o0-nochk", ())]}
MODE_INDEPENDENT = True      # half of every batch runs under a non-default thread rounding mode
REQUIRED_SITES = {"approx.tie": 50, "approx.round_up": 100, "approx.frac_limit": 100}
BUDGET = {"quick": 15, "thorough": 200}
N_RANDOM = {"quick": 12000, "thorough": 50000}


def check(toks, resp, mode, build):
    op = toks[0]
    bits = int(toks[1])
    mant, expb = (53, 11) if op == "fromf64" else (24, 8)
    exp = float_to_decimal(bits, mant, expb)
    be = (bits >> (mant - 1)) & ((1 << expb) - 1)
    bias = (1 << (expb - 1)) - 1
    nontriv = be - bias - (mant - 1) < 0 or abs(be - bias - 127) <= 1
    if exp[0] == "ok":
        want = "V %d %d" % (exp[1], exp[2])
        ok = resp.raw == want
    elif exp[0] == "err":
        want = "E " + exp[1]
        ok = resp.raw == want
    else:
        want = "<-2^127: unconstrained>"
        ok = resp.kind in ("V", "E")
        return ("dc" if ok else "viol"), op + ".dontcare", True, want
    return ("ok" if ok else "viol"), "%s.%s" % (op, exp[0] if exp[0] == "ok" else exp[1]), nontriv, want


def fbits(sign, be, frac, mant, expb):
    return (sign << (mant + expb - 1)) | (be << (mant - 1)) | frac


def from_value(num_odd, k, mant, expb, sign=0):
    """bits of num/2^k if exactly representable as a normal float, else None."""
    if num_odd == 0:
        return None
    n = num_odd
    bl = n.bit_length()
    if bl > mant:
        return None
    # value = n * 2^-k = (n << (mant - bl)) * 2^(-k - (mant - bl))
    m = n << (mant - bl)
    e = -k - (mant - bl)
    bias = (1 << (expb - 1)) - 1
    be = e + bias + (mant - 1)
    if be <= 0 or be >= (1 << expb) - 1:
        return None
    return fbits(sign, be, m - (1 << (mant - 1)), mant, expb)


def constructed(rng):
    out = []
    for op, mant, expb in (("fromf64", 53, 11), ("fromf32", 24, 8)):
        top = (1 << expb) - 1
        bias = (1 << (expb - 1)) - 1
        # specials
        for sign in (0, 1):
            out.append("%s %d" % (op, fbits(sign, 0, 0, mant, expb)))
            out.append("%s %d" % (op, fbits(sign, top, 0, mant, expb)))
            for frac in (1, 1 << (mant - 2), (1 << (mant - 1)) - 1, rng.getrandbits(mant - 1) | 1):
                out.append("%s %d" % (op, fbits(sign, top, frac, mant, expb)))
                out.append("%s %d" % (op, fbits(sign, 0, frac, mant, expb)))      # subnormal
            # every exponent, a few fractions
            for be in range(1, top):
                for frac in (0, 1, (1 << (mant - 1)) - 1, rng.getrandbits(mant - 1)):
                    out.append("%s %d" % (op, fbits(sign, be, frac, mant, expb)))
        # exact ties k / 2^19, odd k; k/2^j; neighbours
        for j in list(range(1, 61)) + [19] * 40:
            for _ in range(6):
                k = rng.getrandbits(rng.randrange(1, mant + 1)) | 1
                if j == 19 and rng.random() < 0.5:
                    k = (rng.getrandbits(rng.randrange(1, mant - 1)) << 2) | rng.choice((1, 3))
                b = from_value(k, j, mant, expb, rng.randrange(2))
                if b is None:
                    continue
                for d in (-1, 0, 1):
                    out.append("%s %d" % (op, b + d))
        # overflow boundary: 2^126 .. 2^128
        for e in (125, 126, 127, 128):
            be = e + bias
            if be >= top:
                continue
            for frac in (0, 1, (1 << (mant - 1)) - 1):
                for sign in (0, 1):
                    out.append("%s %d" % (op, fbits(sign, be, frac, mant, expb)))
        # floats at (maximum of a primitive type) / 10^k and * 10^k, +-3 ulp: where a narrower fast path whose limit
        # was computed in floating point (`u64::MAX as f64 / 1e18`) hands over to the general path
        tobits = f64_bits if mant == 53 else f32_bits
        for T in G.TYPE_MAXIMA:
            for k in range(0, 41):
                cands = [tobits(T, 10 ** k)]
                if k and k <= 20:
                    cands.append(tobits(T * 10 ** k, 1))
                for b in cands:
                    if (b >> (mant - 1)) & top in (0, top):
                        continue
                    for d in range(-3, 4):
                        out.append("%s %d" % (op, (b + d) | (rng.randrange(2) << (mant - 1 + expb))))
        # the zero cut-off region: values around 0.5e-18
        for e in range(-70, -55):
            for _ in range(8):
                be = e + bias
                out.append("%s %d" % (op, fbits(rng.randrange(2), be, rng.getrandbits(mant - 1), mant, expb)))
    return out


_CON = None


def gen(rng, tier, shard, batch):
    global _CON
    reqs = []
    if batch == 0:
        if _CON is None:
            _CON = constructed(random.Random(20260113))
        reqs += _CON[shard::E.NCPU]
    # near-ties computed with the modular-interval solver (vf/hard.py): for every binary exponent the significands m for
    # which m * 2^e * 10^18 is about as close to k + 1/2 as any float of that exponent gets (the f64 analogue of the
    # exhaustive f32 near-tie scan), their neighbours, both signs; a fresh random start per batch
    for op, mant, expb in (("fromf64", 53, 11), ("fromf32", 24, 8)):
        bias = (1 << (expb - 1)) - 1
        for e2 in range(-61 - mant, -18):
            for dens in (8, 1 << 12):
                for m in H.float_to_dec_hard(rng, mant, e2, 18, dens):
                    be = e2 + bias + (mant - 1)
                    if not 0 < be < (1 << expb) - 1:
                        continue
                    b = fbits(rng.randrange(2), be, m - (1 << (mant - 1)), mant, expb)
                    reqs.append("%s %d" % (op, b))
                    if rng.random() < 0.25:
                        reqs.append("%s %d" % (op, b + rng.choice((1, -1))))
    for _ in range(N_RANDOM[tier]):
        if rng.random() < 0.5:
            op, mant, expb = "fromf64", 53, 11
        else:
            op, mant, expb = "fromf32", 24, 8
        bias = (1 << (expb - 1)) - 1
        k = rng.random()
        if k < 0.2:
            bits = rng.getrandbits(mant + expb)
        else:
            e = rng.randrange(-140, 135) if k < 0.8 else rng.randrange(-70, 10)
            be = min(max(e + bias, 0), (1 << expb) - 1)
            frac = rng.getrandbits(mant - 1)
            if rng.random() < 0.3:
                frac &= ~((1 << rng.randrange(0, mant - 1)) - 1)      # few significant bits -> short decimals / ties
            bits = fbits(rng.randrange(2), be, frac, mant, expb)
        reqs.append("%s %d" % (op, bits))
    return reqs


def sweep(tier, seed):
    """f32 exhaustive monitor; returns dict."""
    binary = B.build("release", ())
    if tier == "thorough":
        windows = [(0, 1 << 32)]
    else:
        w = 1 << 27
        start = ((seed * 2654435761) % 30) * w
        windows = [(start, start + w), (0x3f000000 - (1 << 22), 0x3f000000 + (1 << 22)),
                   (0x7e000000, 0x80000000 + (1 << 20)), (0xfe000000, 1 << 32)]
    res = {"ran": True, "windows": [], "checked": 0, "mismatches": 0, "examples": [], "samples_crosschecked": 0,
           "classes": {}}
    stride = 65537
    for lo, hi in windows:
        try:
            p = subprocess.run([binary, "--sweep-f32", str(lo), str(hi), str(E.NCPU), str(stride)],
                               stdout=subprocess.PIPE, stderr=subprocess.PIPE, timeout=1500, text=True)
        except subprocess.TimeoutExpired:
            return {"ran": False, "error": "watchdog"}
        if p.returncode != 0:
            return {"ran": False, "error": p.stderr[-300:]}
        for line in p.stdout.split("\n"):
            if line.startswith("MISMATCH"):
                res["mismatches_listed"] = res.get("mismatches_listed", 0) + 1
                if len(res["examples"]) < 10:
                    res["examples"].append(line)
            elif line.startswith("SAMPLE"):
                _, bits, got = line.split(" ", 2)
                exp = float_to_decimal(int(bits), 24, 8)
                if exp[0] == "ok":
                    want = "V %d %d" % (exp[1], exp[2])
                elif exp[0] == "err":
                    want = "E " + exp[1]
                else:
                    want = got
                res["samples_crosschecked"] += 1
                if want != got:
                    res["mismatches"] += 1
                    if len(res["examples"]) < 10:
                        res["examples"].append("SAMPLE-MISMATCH %s got %s python-oracle %s" % (bits, got, want))
            elif line.startswith("DONE"):
                kv = dict(x.split("=") for x in line.split()[1:])
                res["checked"] += int(kv["checked"])
                res["mismatches"] += int(kv["mismatches"])
                for k in ("int", "frac", "zero", "nan", "inf", "ovf", "dontcare"):
                    res["classes"][k] = res["classes"].get(k, 0) + int(kv[k])
        res["windows"].append([lo, hi])
    return res


def main(tier, seed):
    t0 = time.time()
    sw = sweep(tier, seed)
    code, ev = E.run_property(sys.modules[__name__], tier, seed)
    ev["coverage"]["f32_sweep"] = sw
    if sw.get("ran"):
        ev["coverage"]["evaluations"] += sw["checked"]
        if tier == "thorough":
            ev["coverage"]["exhaustive_subdomains"] = ["all 2^32 f32 bit patterns (in-process u128 reference)"]
        if sw["mismatches"] > 0 and code != 1:
            rp = os.path.join(B.ROOT, "replays", "C13-sweep-%s-%d.req" % (tier, seed))
            with open(rp, "w") as f:
                f.write("# property C13\n")
                for ex in sw["examples"]:
                    f.write("# %s\n" % ex)
                    f.write("fromf32 %s\n" % ex.split()[1])
            print("  f32 sweep disagreements: %s" % sw["examples"][:3])
            print("VIOLATION property=C13 replay=%s" % rp)
            code = 1
            ev["violations"] = ev.get("violations", 0) + sw["mismatches"]
            ev["verdict"] = "violated"
    elif code == 0:
        print("INCONCLUSIVE property=C13 f32 sweep did not run: %s" % sw.get("error"))
        code = 3
        ev["verdict"] = "inconclusive"
    # f64 grid: every exponent x all patterns of the leading fraction bits x {0, 1, half, all-ones} tails
    binary = B.build("release", ())
    gw = E.run_sweep(binary, ["--sweep-f64-grid", 12 if tier == "quick" else 17, E.NCPU])

    def rl(ex):
        parts = ex.split(" ")
        return "fromf64 %s" % parts[2]
    code = E.fold_sweep(ID, code, ev, "f64_grid_sweep", gw, tier, seed, rl)
    # f32 hard cases: scan ALL 2^31 magnitudes for values whose 18-digit scaling lies within 2^-20 of a rounding tie
    # (shift-and-mask arithmetic, no library call), check every candidate and its neighbours, both signs, exactly
    hw = E.run_sweep(binary, ["--sweep-f32-hard", E.NCPU, 20])

    def rl32(ex):
        return "fromf32 %s" % ex.split(" ")[2]
    code = E.fold_sweep(ID, code, ev, "f32_near_tie_hard_cases", hw, tier, seed, rl32)
    ev["wall_s"] = round(time.time() - t0, 2)
    E.write_evidence(ID, ev)
    return code
