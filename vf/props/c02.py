"""C02 - multiplication is exact up to 18 digits, else correctly rounded."""

import random
import sys

from .. import engine as E
from .. import gen as G
from ..oracle import M, P10, MODES, in_i128, OP_INT_TYPES, INT_TYPES
from . import arith as A
from . import common as C

ID = "C02"
TITLE = "Multiplication is exact up to 18 digits, else correctly rounded"
RULE = ("requests `mul|cmul <form> <lhs> <rhs>` under each of the 8 thread rounding modes, Decimal/Decimal, "
        "Decimal/int, int/Decimal (all forms incl. *=); constructed: factor pairs b=floor(M/a), b+1; products "
        "beyond i128 whose rounded quotient fits (256-bit path); exact ties 5*10^i*u x 10^j*v with odd/even "
        "quotient parity and both signs; exact wide products with negative sign; floor quotient == 2^127-1 with "
        "non-zero remainder. Non-trivial = product exceeds i128, or cut-off digits are a tie or within 1 of a "
        "tie, or result within 2 of 2^127, or operand equal to zero/one in non-normalised form")
BUILDS = {"quick": [("dev", ()), ("release", ())],
          "thorough": [("dev", ()), ("release", ()), ("release", ("packed",)), ("o0-nochk", ())]}
ASSUMPTIONS = [C.GRID_NOTE]
REQUIRED_SITES = {"mulr.exact": 100, "mulr.narrow": 100, "mulr.wide": 100, "i256.neg": 20,
                  "i256.exact_neg": 20, "round_quot.tie": 50, "round_quot.overflow": 2, "i256.none": 5}
BUDGET = {"quick": 25, "thorough": 300}
N_RANDOM = {"quick": 1500, "thorough": 5000}   # per mode and shard


def check(toks, resp, mode, build):
    op, form = toks[0], toks[1]
    l = C.operand(toks[2])
    r = C.operand(toks[3])
    spec = A.expected_mul(op, l, r, mode)
    checked = op == "cmul"
    verdict = A.judge(spec, form, resp, checked)
    a, p, _ = l
    b, q, _ = r
    prod = a * b
    nontriv = not in_i128(prod) or abs(abs(prod) - (M + 1)) <= 2
    if not nontriv and l[2] is None and r[2] is None and p + q > 18:
        sh = P10[p + q - 18]
        rem2 = 2 * (abs(prod) % sh)
        nontriv = abs(rem2 - sh) <= 2 and rem2 != 0
    if not nontriv and spec[0] == "value":
        nontriv = (p > 0 or q > 0)
    label = "%s.%s.%s" % (op, A.shape_of(l, r), spec[0])
    return verdict, label, nontriv, A.spec_text(spec, checked)


def _signs(rng, a, b):
    k = rng.randrange(4)
    return (a if k & 1 else -a), (b if k & 2 else -b)


def constructed(rng):
    out = []

    def dd(a, p, b, q, op=None):
        if abs(a) > M or abs(b) > M:
            return
        op = op or rng.choice(("mul", "mul", "cmul"))
        form = rng.choice(("*", "vv", "rv", "vr", "rr") + (("av", "ar") if op == "mul" else ()))
        out.append("%s %s %s %s" % (op, form, G.fD(a, p), G.fD(b, q)))

    # 1. fits / overflows by one factor step, exact region
    for _ in range(60):
        p = rng.randrange(0, 19)
        q = rng.randrange(0, 19 - p)
        a = rng.getrandbits(rng.randrange(2, 100)) + 2
        b = M // a
        for bb in (b, b + 1, b - 1):
            x, y = _signs(rng, a, bb)
            dd(x, p, y, q)
            dd(y, q, x, p)
    # 2. wide products, rounded quotient fits
    for _ in range(80):
        p = rng.randrange(1, 19)
        q = rng.randrange(max(1, 19 - p), 19)
        sh = p + q - 18
        lim = M * P10[sh]
        a = rng.getrandbits(rng.randrange(64, 127)) | 1
        bmax = min(M, lim // a)
        if bmax < 2:
            continue
        b = rng.randrange(max(1, bmax // 4), bmax + 1)
        x, y = _signs(rng, a, b)
        dd(x, p, y, q, "mul")
    # 3. exact ties with controlled parity, narrow and wide
    for _ in range(120):
        sh = rng.randrange(1, 19)
        i = rng.randrange(0, sh)
        j = sh - 1 - i
        u = rng.getrandbits(rng.randrange(1, 90)) | 1
        v = rng.getrandbits(rng.randrange(1, 90)) | 1
        if rng.random() < 0.5:
            # force quotient parity: (u*v - 1) / 2 even or odd
            v = v * rng.choice((1, 3, 5, 7))
        a = 5 * P10[i] * u
        b = P10[j] * v
        if abs(a * b) // P10[sh] > M:
            continue
        # scales with p + q = 18 + sh
        p = rng.randrange(sh, 19)
        q = 18 + sh - p
        if q > 18:
            continue
        x, y = _signs(rng, a, b)
        dd(x, p, y, q, "mul")
        # one unit off the tie (if it keeps the factorisation simple)
        dd(x + rng.choice((-1, 1)), p, y, q, "mul")
    # 4. exact wide products, negative sign (sign fix-up with zero remainder)
    for _ in range(60):
        sh = rng.randrange(1, 19)
        i = rng.randrange(0, sh + 1)
        j = sh - i + rng.randrange(0, 3)
        u = rng.getrandbits(rng.randrange(40, 64)) | 1
        v = rng.getrandbits(rng.randrange(40, 64)) | 1
        a, b = u * P10[i], v * P10[j]
        if abs(a) > M or abs(b) > M or in_i128(a * b):
            a, b = a * P10[8], b * P10[8]
        p = rng.randrange(sh, 19)
        q = 18 + sh - p
        if q > 18 or abs(a) > M or abs(b) > M:
            continue
        dd(-a, p, b, q, "mul")
        dd(a, p, -b, q, "mul")
        dd(a, p, b, q, "mul")
    # 5. floor quotient == M (2^127-1) with non-zero remainder; and == M exactly
    for _ in range(40):
        sh = rng.randrange(1, 19)
        for _try in range(200):
            a = rng.randrange(P10[sh] + 1, 4 * P10[sh])
            b = -((-M * P10[sh]) // a)
            rem = a * b - M * P10[sh]
            if b <= M and 0 <= rem < P10[sh]:
                break
        else:
            continue
        p = rng.randrange(sh, 19)
        q = 18 + sh - p
        if q > 18:
            continue
        dd(a, p, b, q, "mul")
        dd(-a, p, b, q, "mul")
        dd(a, p, b - 1, q, "mul")
    # 5b. operands at the widths of the primitive types (narrow-type fast paths, bit-length sums of 127/128/129)
    tb = G.type_boundary_coeffs()
    for c in tb:
        for d in tb:
            if rng.random() < 0.35:
                p = rng.randrange(0, 19)
                q = rng.randrange(0, 19)
                dd(c, p, d, q)
    # 5b'. all-ones / single-bit / empty 64-bit limbs in both factors (carry chains of the cross products)
    lg = G.limb_grid()
    for c in lg:
        for d in rng.sample(lg, 5):
            dd(c * rng.choice((1, -1)), rng.randrange(0, 19), d * rng.choice((1, -1)), rng.randrange(0, 19))
    # 5b''. wide products whose cut-off digits are a tie (or zero) plus a non-zero multiple of 2^32 / 2^64 / 2^96
    for x_, a_, y_, b_, n_ in C.wide_tie_word_products(rng, 18):
        dd(x_ * rng.choice((1, -1)), a_, y_, b_)
    # 5b3. products just below a primitive-type maximum (and in the upper part of the band below it) whose cut-off
    #       digits are all nines / zero / one / half
    for x_, a_, y_, b_, n_ in C.products_near_type_maxima(rng, 18):
        sx, sy = rng.choice((1, -1)), rng.choice((1, -1))
        dd(sx * x_, a_, sy * y_, b_)
        dd(sy * y_, b_, sx * x_, a_)
    # 5c. operands at floor(T / 10^k) +- 2 for every primitive-type maximum T
    for x, y in G.threshold_pairs(rng)[::3]:
        dd(x[0], x[1], y[0], y[1])
    # 5d. 256-bit product whose top 64-bit word is a multiple of 10^shift and whose next word is below 10^shift
    from .. import knuth as K
    for op, l, r, n in K.api_small_divisor_top_word(rng, 60, G.fD, 18):
        if op == "mulr":
            out.append("%s %s %s %s" % (rng.choice(("mul", "cmul")), rng.choice(("vv", "*", "rr")), l, r))
    # 5e. identical operands (x * x; the driver also runs `&x * &x` with both references to one object)
    for s in range(19):
        for c in (0, 1, -1, 5, P10[s], 13043817825332782212, -13043817825332782213, rng.getrandbits(63), G.small_coeff(rng, 60)):
            out.append("%s * %s %s" % (rng.choice(("mul", "cmul")), G.fD(c, s), G.fD(c, s)))
    # 5f. both factors next to the integer square root of a primitive-type maximum (a pre-check "both operands are
    #     small enough, skip the checked multiply" has its threshold there), within 1e11 of it, all sign pairs
    import math
    for T in G.TYPE_MAXIMA:
        r = math.isqrt(T)
        ds = [0, 1, -1, 2, -2] + [rng.randrange(-10 ** 11, 10 ** 11) for _ in range(6)] + [rng.randrange(-10 ** 5, 10 ** 5) for _ in range(4)]
        for d1 in ds:
            d2 = rng.choice(ds)
            a, b = r + d1, r + d2
            if not (0 < a <= M and 0 < b <= M):
                continue
            p = rng.randrange(0, 19)
            q = rng.randrange(0, 19)
            sx, sy = rng.choice((1, -1)), rng.choice((1, -1))
            dd(sx * a, p, sy * b, q)
            dd(sx * a, p, sy * a, q)
    # 6. zero / one operands in every representation
    for s in range(19):
        for t in (0, 5, 18):
            x = rng.randrange(-M, M + 1)
            dd(P10[s], s, x, t)
            dd(x, t, P10[s], s)
            dd(0, s, x, t)
            dd(x, t, 0, s)
            dd(-P10[s], s, x, t)
        for w in G.trunc_twins(rng, rng.choice((P10[s], -P10[s], 0)))[::2]:
            # agrees with one / zero in its low 32 / 64 / 96 bits only
            xs = rng.choice((3, -7, rng.randrange(-10 ** 6, 10 ** 6) or 1))
            dd(xs, rng.randrange(0, 19), w, s)
            dd(w, s, xs, rng.randrange(0, 19))
    # 7. integer operands at the type bounds
    for ty in OP_INT_TYPES:
        lo, hi = INT_TYPES[ty]
        for v in (lo, hi, 0, 1, -1 if lo < 0 else 2):
            for s in (0, 7, 18):
                for c in (M // max(1, abs(v)), M // max(1, abs(v)) + 1, -(M // max(1, abs(v))) - 1, 0, 1, M):
                    if abs(c) > M:
                        continue
                    op = rng.choice(("mul", "cmul"))
                    out.append("%s * %s %s" % (op, G.fD(c, s), G.fI(ty, v)))
                    out.append("%s * %s %s" % (op, G.fI(ty, v), G.fD(c, s)))
    # 8. products of exactly +-2^127 / +-2^126 with an integer power of two of every type; Decimals at the ends of an
    #    integer type's range against that type's -1 / 1 / 2 / ends (native-width fast paths)
    for dt, it in C.pow2_products() + C.native_width_cases(rng):
        op = rng.choice(("mul", "cmul"))
        out.append("%s * %s %s" % (op, dt, it))
        out.append("%s * %s %s" % (op, it, dt))
    return out


_CON = None


def gen(rng, tier, shard, batch):
    global _CON
    reqs = []
    if batch == 0:
        if _CON is None:
            _CON = constructed(random.Random(20260102))
        mine = _CON[shard::E.NCPU]
    else:
        mine = []
    for mode in MODES:
        reqs.append("mode " + mode)
        reqs += mine
        if batch == 0:
            for a, p, b, q in C.small_grid(tier, shard, E.NCPU):
                reqs.append("mul vv %s %s" % (G.fD(a, p), G.fD(b, q)))
        for _ in range(N_RANDOM[tier]):
            op = rng.choice(("mul", "mul", "cmul"))
            k = rng.random()
            if k < 0.6:
                a, p = G.dec(rng)
                b, q = G.dec(rng)
                if rng.random() < 0.5:
                    # keep the rounded result representable more often
                    a = G.small_coeff(rng, 90)
                    b = G.small_coeff(rng, 90)
                ltok, rtok = G.fD(a, p), G.fD(b, q)
            else:
                ltok, rtok = C.shape_operands(rng, rng.choice(("Di", "iD")))
            form = C.pick_form(rng, ltok[0] == "D", op == "mul")
            reqs.append("%s %s %s %s" % (op, form, ltok, rtok))
    return reqs


main = C.standard_main(sys.modules[__name__])
