"""C15 - floor, ceil, trunc, fract, abs, neg, magnitude and sign predicates are exact."""

import os
import random
import subprocess
import sys

from .. import build as B
from .. import engine as E
from .. import gen as G
from ..oracle import M, P10, in_i128, parse_literal, value_eq
from . import arith as A
from . import common as C

ID = "C15"
TITLE = "floor, ceil, trunc, fract, abs, neg, magnitude and sign predicates are exact"
RULE = ("requests `neg negref abs floor ceil trunc fract magn preds` and with feature num-traits `nt` (is_zero "
        "is_one is_positive is_negative abs signum zero one), `nt_abssub`, `nt_radix` (radix 2..36); constructed: "
        "all 39 powers of ten +-1 at every scale, negative exact integers with non-zero scale, 0 @ s; plus seeded "
        "random operands; exhaustive sub-domain: fpdec_core::{u8,u16,u32} digit-count helpers over their whole "
        "domains and u64/u128/i128_magnitude at every power-of-ten boundary +-2 and 10^7 LCG values, in-process "
        "against std ilog10 (`probe --sweep-log10`). Non-trivial = scale > 0")
BUILDS = {"quick": [("dev", ("full",)), ("release", ("full",))],
          "thorough": [("dev", ("full",)), ("release", ("full",)), ("release", ("full", "packed")), ("o0-nochk", ("full",))]}
MODE_INDEPENDENT = True      # half of every batch runs under a non-default thread rounding mode
REQUIRED_SITES = {}
BUDGET = {"quick": 15, "thorough": 200}
N_RANDOM = {"quick": 8000, "thorough": 40000}
UNARY = ("neg", "negref", "abs", "floor", "ceil", "trunc", "fract", "magn", "preds")


def tdiv(a, b):
    q = abs(a) // abs(b)
    return q if (a < 0) == (b < 0) else -q


def check(toks, resp, mode, build):
    op = toks[0]
    if op == "consts":
        want = "K V 0 0 V 1 0 V -1 0 V 2 0 V 10 0 V %d 0 V %d 0 V 1 18 V 0 0" % (M, -M)
        return ("ok" if resp.raw == want else "viol"), "consts", False, want
    if op == "nt_radix":
        radix = int(toks[1])
        s = E.unhex(toks[2])
        if radix != 10:
            want = "E Invalid"
            ok = resp.raw == want
        else:
            exp = parse_literal(s)
            if exp[0] == "ok":
                want = "V %d %d" % (exp[1], exp[2])
                ok = resp.raw == want
            else:
                want = "E <any>" if exp[0] != "empty" else "E Empty"
                ok = resp.kind == "E" and (exp[0] != "empty" or resp.raw == want)
        return ("ok" if ok else "viol"), "nt_radix.%s" % ("10" if radix == 10 else "other"), True, want
    a, p = E.pD(toks[1])
    if op == "nt_abssub":
        b, q = E.pD(toks[2])
        s = max(p, q)
        Av, Bv = a * P10[s - p], b * P10[s - q]
        if Av <= Bv:
            spec = ("value", 0, 0, 18)
        elif in_i128(Av) and in_i128(Bv) and in_i128(Av - Bv):
            spec = ("exact", Av - Bv, s)
        else:
            spec = ("signal",)
        ok = A.matches(spec, resp, False)
        return ("ok" if ok else "viol"), "nt_abssub." + spec[0], True, A.spec_text(spec, False)
    if op == "nt":
        sg = (a > 0) - (a < 0)
        want = "T %d%d%d%d V %d %d <signum %d> <zero> <one> 11" % (a == 0, a == P10[p], a > 0, a < 0, abs(a), p, sg)
        f = resp.raw.split(" ")
        ok = (len(f) == 15 and f[0] == "T" and f[1] == "%d%d%d%d" % (a == 0, a == P10[p], a > 0, a < 0)
              and f[2:5] == ["V", str(abs(a)), str(p)] and f[5] == "V" and f[8] == "V" and f[11] == "V" and f[14] == "11")
        if ok:
            # signum, zero() and one(): by value
            ok = (value_eq(int(f[6]), int(f[7]), sg, 0) and int(f[9]) == 0 and value_eq(int(f[12]), int(f[13]), 1, 0)
                  and max(int(f[7]), int(f[10]), int(f[13])) <= 18)
        return ("ok" if ok else "viol"), "nt", p > 0, want
    t = P10[p]
    if op in ("neg", "negref"):
        want = "V %d %d" % (-a, p)
    elif op == "abs":
        want = "V %d %d" % (abs(a), p)
    elif op in ("floor", "ceil", "trunc"):
        # "integral results": the value is fixed, the representation is not
        v = a // t if op == "floor" else (-((-a) // t) if op == "ceil" else tdiv(a, t))
        spec = ("value", v, 0, 18)
        return ("ok" if A.matches(spec, resp, False) else "viol"), op, p > 0, A.spec_text(spec, False)
    elif op == "fract":
        want = "V %d %d" % (a - tdiv(a, t) * t, p)
    elif op == "magn":
        want = "I %d" % (0 if a == 0 else len(str(abs(a))) - 1 - p)
    elif op == "preds":
        want = "B %d%d%d%d" % (a == 0, a == t, a < 0, a > 0)
    else:
        raise ValueError(op)
    return ("ok" if resp.raw == want else "viol"), op, p > 0, want


def constructed(rng):
    out = ["consts"]
    for k in range(39):
        for d in (-1, 0, 1):
            c = P10[k] + d
            for s in range(19):
                for sg in (1, -1):
                    for op in UNARY + ("nt",):
                        out.append("%s %s%s" % (op, G.fD(sg * c, s), " D0:0" if op == "nt" else ""))
    for s in range(19):
        for op in UNARY + ("nt",):
            out.append("%s %s%s" % (op, G.fD(0, s), " D0:0" if op == "nt" else ""))
            for c in (M, -M, -17 * P10[s], 17 * P10[s], -P10[s], P10[s]):
                if abs(c) <= M:
                    out.append("%s %s%s" % (op, G.fD(c, s), " D0:0" if op == "nt" else ""))
    for s in range(1, 19):
        for c in G.split_values(rng, s, 2):
            for sgn in (1, -1):
                for op in ("floor", "ceil", "trunc", "fract", "magn"):
                    out.append("%s %s" % (op, G.fD(sgn * c, s)))
    # multiples of 10^n beyond 2^64 / 2^128 reduced modulo the word size
    for c, n_ in G.wrapped_multiples():
        for op in ("floor", "ceil", "trunc", "fract", "preds"):
            out.append("%s %s" % (op, G.fD(c * rng.choice((1, -1)), n_)))
    # decision boundary of division-free divisibility tests (x * inverse(5^n) mod 2^w against floor((2^w - 1) / 5^n))
    for c, n_ in G.modinv_boundary_all(rng):
        for op in ("floor", "ceil", "trunc", "fract", "preds"):
            out.append("%s %s" % (op, G.fD(c * rng.choice((1, -1)), n_)))
    # abs_sub: x <= y with unrepresentable difference must still give zero
    for x, y in (((-M, 0), (M, 0)), ((-P10[25], 0), (1, 18)), ((-M, 18), (P10[22], 0)), ((M, 0), (-M, 0)),
                 ((5, 1), (5, 1)), ((50, 2), (5, 1)), ((M, 0), (1, 18)), ((M, 5), (M, 5)), ((M, 5), (-1, 5))):
        out.append("nt_abssub %s %s" % (G.fD(*x), G.fD(*y)))
    radices = list(range(0, 40)) + [255, 256, 257, 265, 266, 267, 10 + 512, 10 + 65536, 10 + (1 << 24), 10 + (1 << 31),
                                    (1 << 32) - 1, (1 << 32) - 246, (1 << 32) - 256 + 10 - 256, 1 << 31, 100, 1000]
    radices += [10 + 256 * rng.randrange(1, 1 << 24) for _ in range(20)] + [10 + 65536 * rng.randrange(1, 1 << 16) for _ in range(10)]
    radices += [rng.getrandbits(32) for _ in range(30)]
    for radix in radices:
        for lit in ("1", "-17.5", "1e2", "ff", "", "0.000", "١"):
            out.append("nt_radix %d %s" % (radix, E.hexs(lit)))
    # radix 10 must behave exactly like from_str: the ends of the coefficient range, long literals, near misses
    for lit in (str(M), str(-M), str(M + 1), str(-M - 1), "-" + "0" * 5 + str(M + 1), "+" + str(M), str(1 << 128), str(-(1 << 128)),
                "0" * 300 + "1.50", "1." + "0" * 18, "1." + "0" * 19, "1e38", "1e39", "0e39", ".5", "5.", " 1", "1_0", "0x10", "١",
                "-0.000", "+.5e-3", "1" + "0" * 38, "9" * 39, "0." + "0" * 17 + "1", "0." + "0" * 18 + "1"):
        out.append("nt_radix 10 %s" % E.hexs(lit))
    # values whose low 32 / 64 / 96 bits equal those of zero, one (10^s at scale s), minus one: predicates on a truncated
    # coefficient
    for s in range(19):
        for base in (0, P10[s], -P10[s], 1, -1):
            for t in G.trunc_twins(rng, base):
                for op in ("preds", "nt", "fract", "trunc", "abs", "magn"):
                    out.append("%s %s%s" % (op, G.fD(t, s), " D0:0" if op == "nt" else ""))
    return out


_CON = None


def gen(rng, tier, shard, batch):
    global _CON
    reqs = []
    if batch == 0:
        if _CON is None:
            _CON = constructed(random.Random(20260115))
        reqs += _CON[shard::E.NCPU]
    for _ in range(N_RANDOM[tier]):
        a, p = G.dec(rng)
        k = rng.random()
        if k < 0.1 and p > 0:
            a = tdiv(a, P10[p]) * P10[p]      # integral value with trailing zeros (negative ones too)
        if k < 0.8:
            reqs.append("%s %s" % (rng.choice(UNARY), G.fD(a, p)))
        elif k < 0.9:
            reqs.append("nt %s D0:0" % G.fD(a, p))
        else:
            b, q = G.dec(rng)
            if rng.random() < 0.3:
                b, q = rng.choice(G.representations(a, p))
            reqs.append("nt_abssub %s %s" % (G.fD(a, p), G.fD(b, q)))
    return reqs


def main(tier, seed):
    import time
    t0 = time.time()
    # exhaustive digit-count sub-domain, in-process reference (std ilog10)
    binary = B.build("release", ("full",))
    sweep = {"ran": False}
    try:
        p = subprocess.run([binary, "--sweep-log10"], stdout=subprocess.PIPE, stderr=subprocess.PIPE,
                           timeout=900, text=True)
        lines = p.stdout.strip().split("\n")
        done = [l for l in lines if l.startswith("DONE")]
        mism = [l for l in lines if l.startswith("MISMATCH")]
        if p.returncode != 0 or not done:
            sweep = {"ran": False, "error": (p.stderr or "")[-300:]}
        else:
            kv = dict(x.split("=") for x in done[0].split()[1:])
            sweep = {"ran": True, "checked": int(kv["checked"]), "mismatches": int(kv["mismatches"]),
                     "examples": mism[:5], "wall_s": round(time.time() - t0, 1)}
    except subprocess.TimeoutExpired:
        sweep = {"ran": False, "error": "watchdog"}
    extra = {"digit_count_sweep": sweep,
             "exhaustive_subdomains": ["fpdec_core::u8 over 1..=255", "fpdec_core::u16 over 1..=65535",
                                       "fpdec_core::u32 over 1..=2^32-1"] if sweep.get("ran") else []}
    mod = sys.modules[__name__]
    code, ev = E.run_property(mod, tier, seed)
    # fold the sweep verdict in
    ev["coverage"].update(extra)
    if sweep.get("ran") and sweep["mismatches"] > 0 and code != 1:
        os.makedirs(os.path.join(B.ROOT, "replays"), exist_ok=True)
        rp = os.path.join(B.ROOT, "replays", "C15-sweep-%d.txt" % seed)
        open(rp, "w").write("# property C15\n# probe --sweep-log10\n" + "\n".join(sweep["examples"]) + "\n")
        print("  digit-count helper disagrees with ilog10: %s" % sweep["examples"][:3])
        print("VIOLATION property=C15 replay=%s" % rp)
        code = 1
        ev["violations"] = ev.get("violations", 0) + sweep["mismatches"]
        ev["verdict"] = "violated"
    elif not sweep.get("ran") and code == 0:
        print("INCONCLUSIVE property=C15 digit-count sweep did not run: %s" % sweep.get("error"))
        code = 3
        ev["verdict"] = "inconclusive"
    if sweep.get("ran"):
        ev["coverage"]["evaluations"] += sweep["checked"]
    E.write_evidence(ID, ev)
    return code


def replay(path):
    txt = open(path).read()
    if "--sweep-log10" in txt:
        return main("quick", 1)
    return E.replay(sys.modules[__name__], path)
