"""Known findings (read-only at run time) and their signature predicates.

/verif/known_findings.json is committed and never written by a check. Only
`status: open` entries suppress anything, and only for executions that match
the entry's narrow signature (operation + operand class + the exact faulty
outcome). A different violation of the same property is still reported.
"""

import json
import os

_PATH = os.path.join(os.path.dirname(os.path.dirname(os.path.abspath(__file__))), "known_findings.json")
_DB = None


def _load():
    global _DB
    if _DB is None:
        with open(_PATH) as f:
            _DB = {e["id"]: e for e in json.load(f)["findings"]}
    return _DB


def get(kid):
    return _load()[kid]


def is_open(kid):
    e = _load().get(kid)
    return e is not None and e.get("status") == "open"
