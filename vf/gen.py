"""Workload generators: hostile Decimal / integer samplers shared by the
property modules. All randomness comes from the rng handed in (VERIF_SEED)."""

from .oracle import M, P10, INT_TYPES, OP_INT_TYPES, MODES

I128_MIN = -(1 << 127)


TYPE_BITS = (7, 8, 15, 16, 24, 31, 32, 53, 63, 64, 68, 96, 126)


def type_boundary_coeffs():
    """+-(2^k - 1), +-2^k, +-(2^k + 1) for the widths of the primitive types (narrow-type fast paths)."""
    out = []
    for k in TYPE_BITS:
        for d in (-1, 0, 1):
            v = (1 << k) + d
            if v <= M:
                out += [v, -v]
    return out


TYPE_MAXIMA = ((1 << 31) - 1, (1 << 32) - 1, (1 << 63) - 1, (1 << 64) - 1, M, (1 << 128) - 1)


def type_scaled_thresholds(kmax=18):
    """(value, k): floor(T / 10^k) + d for the maxima T of the primitive types, k = 1..18, d = -2..2, both signs -
    the thresholds of "does it still fit after scaling by 10^k" tests for every integer width."""
    out = []
    for T in TYPE_MAXIMA:
        for k in range(1, kmax + 1):
            base = T // 10 ** k
            for d in (-2, -1, 0, 1, 2):
                v = base + d
                if 0 < v <= M:
                    out.append((v, k))
                    out.append((-v, k))
    return out


_TB = None
_TS = None
_SG = None


def coeff(rng):
    """A coefficient in [-M, M], biased towards the places where code branches."""
    global _TB
    global _TS
    k = rng.randrange(18)
    if k == 16:
        if _TB is None:
            _TB = type_boundary_coeffs()
        return rng.choice(_TB)
    if k == 17:
        if _TS is None:
            _TS = type_scaled_thresholds()
        return rng.choice(_TS)[0]
    if k == 0:
        c = rng.choice((0, 1, 2, 5, 9, 10))
    elif k == 1:
        c = P10[rng.randrange(0, 39)]
    elif k == 2:
        c = P10[rng.randrange(0, 39)] + rng.choice((-1, 1))
    elif k == 3:
        c = 5 * P10[rng.randrange(0, 38)]
    elif k == 4:
        c = 1 << rng.randrange(0, 127)
    elif k == 5:
        c = (1 << rng.randrange(1, 128)) + rng.choice((-1, 1))
    elif k == 6:
        c = M - rng.randrange(0, 3)
    elif k == 7:
        # multiple of a power of ten (trailing zeros -> non-normalised)
        j = rng.randrange(1, 25)
        c = rng.randrange(1, max(2, M // P10[j])) * P10[j]
    elif k == 8:
        c = rng.randrange(0, 1 << 64)
    elif k == 9:
        c = M // rng.randrange(1, 1000)
    elif k == 10:
        c = rng.randrange(0, 1000)
    elif k == 11:
        c = limb_structured(rng)
    elif k == 12:
        c = modinv_boundary(rng)[0]
    elif k == 13 and rng.random() < 0.5:
        c = digit_pattern(rng)
    elif k == 14 and rng.random() < 0.5:
        global _SG
        if _SG is None:
            _SG = sublimb_grid() + limb_grid()
        c = rng.choice(_SG)
    else:
        c = rng.getrandbits(rng.randrange(1, 128))
    if c > M:
        c = M
    if rng.random() < 0.5:
        c = -c
    return c


def small_coeff(rng, bits=64):
    c = rng.getrandbits(rng.randrange(1, bits + 1))
    return -c if rng.random() < 0.5 else c


def scale(rng):
    k = rng.randrange(8)
    if k == 0:
        return 0
    if k == 1:
        return 18
    if k == 2:
        return rng.choice((1, 17, 9))
    return rng.randrange(0, 19)


def dec(rng):
    return coeff(rng), scale(rng)


def representations(c, s):
    """All (coeff, scale) pairs with the same value and |coeff| <= M, scale <= 18."""
    from .oracle import normalize
    c0, s0 = normalize(c, s)
    res = []
    k = 0
    while s0 + k <= 18:
        cc = c0 * P10[k]
        if abs(cc) > M:
            break
        res.append((cc, s0 + k))
        k += 1
    return res


def int_of(rng, ty):
    lo, hi = INT_TYPES[ty]
    k = rng.randrange(12)
    if k == 0:
        v = lo
    elif k == 1:
        v = hi
    elif k == 2:
        v = lo + 1
    elif k == 3:
        v = hi - 1
    elif k == 4:
        v = rng.choice((0, 1, -1, 2, 10))
    elif k == 5:
        v = P10[rng.randrange(0, 39)] * rng.choice((1, -1))
    elif k == 6:
        v = rng.randrange(-10, 11)
    else:
        bits = max(1, hi.bit_length())
        v = rng.getrandbits(rng.randrange(1, bits + 1))
        if lo < 0 and rng.random() < 0.5:
            v = -v
    if v < lo or v > hi:
        v = rng.randrange(lo, hi + 1)
    return v


def int_type(rng):
    return rng.choice(OP_INT_TYPES)


def fI(ty, v):
    return "%s:%d" % (ty, v)


def fD(c, s):
    return "D%d:%d" % (c, s)


def with_modes(reqs_by_mode):
    """reqs_by_mode: dict mode -> list of requests; returns flat list with
    `mode` directives."""
    out = []
    for m in MODES:
        rs = reqs_by_mode.get(m)
        if rs:
            out.append("mode " + m)
            out.extend(rs)
    return out


def near_limit(rng):
    """A coefficient within 2 of +-M or of 2^127 boundaries (clamped to domain)."""
    c = M - rng.randrange(0, 3)
    return -c if rng.random() < 0.5 else c


def wrap_twin(a, k):
    """The i128 value a * 10^k would wrap to (two's complement); None if it does not wrap or leaves the domain."""
    v = a * P10[k]
    if -(M + 1) <= v <= M:
        return None
    w = ((v + (1 << 127)) % (1 << 128)) - (1 << 127)
    return w if abs(w) <= M else None


def split_values(rng, s, n=6):
    """Coefficients Q * 10^s + r that sit at the seams of a split at s digits: r in {0, 1, 10^s - 1, 10^s - 2, half,
    half +- 1}, Q at floor(T / 10^s) +- 2 for the maxima T of the primitive types (where narrow fast paths, reciprocal
    tables and range guards change behaviour), plus random Q. s may be up to 38."""
    t = 10 ** s
    rs = [0, 1, t - 1, t - 2, t // 2, t // 2 + 1, t // 2 - 1]
    # remainders that are multiples of a primitive type's width (a remainder test squeezed into a narrower integer)
    for w in (1 << 32, 1 << 63, 1 << 64):
        for j in (1, 3, rng.randrange(1, 1 << 20)):
            if w * j < t:
                rs.append(w * j)
    qs = []
    for T in TYPE_MAXIMA:
        base = T // t
        for d in (-2, -1, 0, 1):
            if base + d >= 0:
                qs.append(base + d)
    for _ in range(n):
        qs.append(rng.randrange(0, M // t + 1))
    out = []
    for q in qs:
        for r in rs:
            c = q * t + r
            if 0 < c <= M and r >= 0:
                out.append(c)
    return out


def threshold_pairs(rng):
    """Operand pairs ((v, p), (x, q)) with q - p == k for every type-scaled threshold (v, k): the operand that has to be
    multiplied by exactly 10^k sits at floor(T / 10^k) +- 2. Both operand orders; x small, equal-valued, or random."""
    out = []
    for v, k in type_scaled_thresholds():
        p = rng.randrange(0, 19 - k)
        q = p + k
        xs = [1, -1, rng.randrange(-10 ** 9, 10 ** 9), rng.randrange(-M, M)]
        w = v * P10[k]
        for e in (0, 1, -1):
            if abs(w + e) <= M:
                xs.append(w + e)
        for x in xs:
            out.append(((v, p), (x, q)))
            out.append(((x, q), (v, p)))
        # both operands inside the same narrow band (iterated reductions keep their running value below the other
        # operand), the scale difference k or larger, either order
        q2 = rng.randrange(q, 19)
        for x in (v - 1, v + 1, v - 2, v + 2, v + rng.randrange(3, 1000)):
            out.append(((v, p), (x, q2)))
            out.append(((x, p), (v, q2)))
            out.append(((x, q2), (v, p)))
    return out


def limb_structured(rng):
    """hi * 2^w + lo with w in {32, 64, 96}: a low limb that is tiny (below 10^8), zero, or within 10^8 of wrapping, under
    a random odd or even high part - where hand-written carry propagation between limbs goes wrong."""
    w = rng.choice((32, 64, 64, 64, 96))
    hi = rng.getrandbits(rng.randrange(1, 128 - w))
    k = rng.randrange(5)
    if k == 0:
        lo = rng.randrange(0, 100)
    elif k == 1:
        lo = rng.randrange(0, min(10 ** 8, 1 << w))
    elif k == 2:
        lo = (1 << w) - 1 - rng.randrange(0, min(10 ** 8, 1 << w))
    elif k == 3:
        lo = (1 << w) - 1 - rng.randrange(0, 100)
    else:
        lo = rng.getrandbits(w) & ~((1 << rng.randrange(1, w)) - 1)       # trailing zero bits
    return min(M, (hi << w) + lo)


def prefix_structured(rng):
    """A coefficient whose leading decimal digits, read as a number P, are binary-structured (2^k, 2^k +- 1, a multiple of
    2^56 / 2^60 / 2^63 / 2^64 beyond 2^64, a type maximum) followed by d more digits (d = 8, 16, 24 favoured: the chunk
    sizes of digit-group accumulators), the tail random, zeros, or nines. Returns a positive coefficient <= M."""
    k = rng.randrange(6)
    if k == 0:
        P = 1 << rng.randrange(20, 127)
    elif k == 1:
        P = (1 << rng.randrange(20, 127)) + rng.choice((-1, 1))
    elif k == 2:
        t = rng.choice((56, 60, 63, 64))
        P = (1 << 64) + (rng.randrange(0, 1 << (rng.randrange(1, 60))) << t)
    elif k == 3:
        t = rng.choice((32, 48, 56, 64, 96))
        P = rng.getrandbits(rng.randrange(1, 127 - t)) << t
    elif k == 4:
        P = rng.choice(TYPE_MAXIMA[:5]) + rng.choice((0, 1, 2, -1))
    else:
        P = limb_structured(rng)
    P = max(P, 1)
    room = 38 - len(str(P))
    if room <= 0:
        return min(P, M)
    d = rng.choice((8, 16, 24, 8, 16, rng.randrange(0, room + 1)))
    d = min(d, room)
    j = rng.randrange(4)
    tail = 0 if j == 0 else (10 ** d - 1 if j == 1 else rng.randrange(0, 10 ** d))
    c = P * 10 ** d + tail
    return c if c <= M else P


def modinv_boundary(rng, n=None):
    """(c, n): a coefficient at the decision boundary of a division-free divisibility test by 5^n (or 10^n) in w-bit
    arithmetic: x is divisible by the odd d iff x * inv(d) mod 2^w <= floor((2^w - 1) / d). c = (m << z) with
    m = (floor((2^w - 1) / 5^n) + j) * 5^n mod 2^w, j in -2..50 - the non-multiples whose product with the inverse
    lands just beyond the bound (j >= 1) and the last true multiples (j <= 0); z supplies the 2^n part."""
    if n is None:
        n = rng.randrange(1, 19)
    w = rng.choice((32, 64, 64, 128, 128))
    d = 5 ** n
    if d >> w:
        w = 128
    qmax = ((1 << w) - 1) // d
    j = rng.choice((0, 1, 1, 2, 3, -1, -2, rng.randrange(1, 50)))
    m = ((qmax + j) * d) % (1 << w)
    if rng.random() < 0.15:
        # the same for 3 (bankers' thirds), 7, 9, 11 - other constants somebody may test divisibility by
        d = rng.choice((3, 7, 9, 11, 25, 125))
        m = ((((1 << w) - 1) // d + j) * d) % (1 << w)
    z = rng.choice((0, n, n, n + 1, rng.randrange(0, 20)))
    c = m << z
    while c > M:
        c >>= 1
    return c, n


def modinv_boundary_all(rng):
    """The systematic version of modinv_boundary: every n in 1..18, every word size, j in {-1, 0, 1, 2, 3, random},
    shifted by 0, n and n + 1 bits (and by n bits with a small odd cofactor). Returns [(c, n)] with 0 < c <= M."""
    out = []
    for n in range(1, 19):
        d = 5 ** n
        for w in (32, 64, 128):
            if d >> w:
                continue
            qmax = ((1 << w) - 1) // d
            for j in (-1, 0, 1, 2, 3, rng.randrange(4, 50)):
                m = ((qmax + j) * d) % (1 << w)
                for z in (0, n, n + 1):
                    c = m << z
                    if 0 < c <= M:
                        out.append((c, n))
    return out


def trunc_twins(rng, c):
    """Values that agree with c in their low 32 / 64 / 96 bits (c + k * 2^w, |result| <= M): what a comparison or
    predicate that looks at a truncated coefficient cannot tell from c."""
    out = []
    for w in (32, 64, 64, 96):
        for k in (1, -1, 2, rng.randrange(1, 1 << (126 - w)), -rng.randrange(1, 1 << (126 - w)),
                  1 << rng.randrange(0, 126 - w)):
            t = c + (k << w)
            if abs(t) <= M and t != c:
                out.append(t)
    return out


def limb_quotient_values(rng, sh, n=40):
    """Coefficients q * 10^sh + r whose kept part q (after cutting sh digits) has binary-structured limbs - low limb
    within a few units of wrapping, tiny, or zero, so that limb sums carry - with every residue of q mod 5 and mod 2,
    and r in {1, half, half +- 1, 10^sh - 1, random, 0}. Positive, <= M."""
    t = 10 ** sh
    out = []
    for _ in range(n):
        q = limb_structured(rng)
        if rng.random() < 0.5:
            # large high limb, low limb a few units below 2^64: hi + lo carries out of 64 bits
            hi = rng.getrandbits(rng.randrange(1, 63))
            q = (hi << 64) + (1 << 64) - 1 - rng.randrange(0, max(1, min(hi, 1000)))
        q %= (M // t) + 1
        q -= q % 5
        for res in range(5):
            r = rng.choice((1, t // 2, t // 2 + 1, t // 2 - 1, t - 1, rng.randrange(0, t), 0))
            c = (q + res) * t + r
            if 0 < c <= M:
                out.append(c)
    return out


LIMB_WORDS = (0, 1, 2, (1 << 31) - 1, 1 << 31, (1 << 32) - 1, 1 << 32, (1 << 63) - 1, 1 << 63, (1 << 64) - 2, (1 << 64) - 1)


def limb_grid():
    """All hi * 2^64 + lo with hi, lo from LIMB_WORDS (hi < 2^63): all-ones / single-bit / empty limbs, the operands on
    which schoolbook limb arithmetic (carry chains, cross products, limb-wise compares) is most likely to slip."""
    out = []
    for hi in LIMB_WORDS:
        if hi >> 63:
            continue
        for lo in LIMB_WORDS:
            c = (hi << 64) | lo
            if 0 < c <= M:
                out.append(c)
    return out


def limb_carry_pairs(rng, n=60):
    """(a, b) with |a|, |b| <= M whose low limbs sum to 2^64 - 1, 2^64 or 2^64 + 1 (carry into the high limb just
    happens / just does not), or whose low limbs are ordered against their high limbs (hi_a < hi_b, lo_a > lo_b)."""
    out = []
    for _ in range(n):
        ha, hb = rng.getrandbits(rng.randrange(1, 62)), rng.getrandbits(rng.randrange(1, 62))
        la = rng.getrandbits(64)
        for d in (-1, 0, 1):
            lb = ((1 << 64) - la + d) & ((1 << 64) - 1)
            out.append(((ha << 64) | la, (hb << 64) | lb))
        # borrow: equal / adjacent high limbs, low limbs in the opposite order
        lo1, lo2 = sorted((rng.getrandbits(64), rng.getrandbits(64)))
        out.append(((ha << 64) | lo2, ((ha + 1) << 64) | lo1))
        out.append(((ha << 64) | lo1, (ha << 64) | lo2))
        out.append((((ha + 1) << 64), (ha << 64) | ((1 << 64) - 1)))
    return out


def digit_pattern(rng):
    """Coefficients whose decimal digits follow a pattern: repdigits (777...7), a short block repeated (123123...,
    9090...), one odd digit in a run of equal digits, ascending / descending runs, digit sums at the extremes. 1..38 digits."""
    n = rng.randrange(1, 39)
    k = rng.randrange(6)
    if k == 0:
        ds = rng.choice("123456789") * n
    elif k == 1:
        blk = "".join(rng.choice("0123456789") for _ in range(rng.randrange(2, 6)))
        ds = (blk * 20)[:n]
    elif k == 2:
        d = rng.choice("0123456789")
        ds = list(d * n)
        ds[rng.randrange(n)] = rng.choice("0123456789")
        ds = "".join(ds)
    elif k == 3:
        ds = ("1234567890" * 4)[:n]
    elif k == 4:
        ds = ("9876543210" * 4)[:n]
    else:
        ds = rng.choice(("9" * n, "1" + "0" * (n - 1), "1" + "0" * max(0, n - 2) + "1", "5" * n, "4" * (n - 1) + "5"))
    c = int(ds.lstrip("0") or "0")
    return min(c, M)


def wrapped_multiples():
    """[(c, n)]: multiples of 10^n (and of 5^n, shifted by n bits) just beyond 2^64 / 2^128, reduced modulo 2^64 / 2^128:
    c = k * 10^n - 2^w for k = ceil(2^w / 10^n) + j. Not multiples of 10^n themselves, but congruent to one modulo the word
    size - the impostors of any divisibility or exact-division test done in wrapping w-bit arithmetic."""
    out = []
    for w in (64, 128):
        for n in range(1, 19):
            for base in (10 ** n, 5 ** n):
                k0 = -(-(1 << w) // base)
                for j in (0, 1, 2, 3, 7):
                    c = (k0 + j) * base - (1 << w)
                    if base != 10 ** n:
                        c <<= n
                    if 0 < c <= M:
                        out.append((c, n))
                # ... and just below a multiple of 2^w: 2 * 2^w etc.
                k1 = -(-(2 << w) // base)
                c = k1 * base - (2 << w)
                if 0 < c <= M and base == 10 ** n:
                    out.append((c, n))
    return out


SUBLIMB_WORDS = (0, 1, (1 << 31), (1 << 32) - 2, (1 << 32) - 1)


def sublimb_grid():
    """All values made of four 32-bit words from SUBLIMB_WORDS (top word < 2^31): all-ones / empty / single-bit 32-bit
    limbs, for code that folds or sums 32-bit limbs (digit sums modulo 2^32 - 1, carry folding, reciprocal tables)."""
    out = []
    for a in SUBLIMB_WORDS:
        if a >> 31:
            continue
        for b in SUBLIMB_WORDS:
            for c in SUBLIMB_WORDS:
                for d in SUBLIMB_WORDS:
                    v = (a << 96) | (b << 64) | (c << 32) | d
                    if 0 < v <= M:
                        out.append(v)
    return out
