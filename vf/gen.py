"""Workload generators: hostile Decimal / integer samplers shared by the
property modules. All randomness comes from the rng handed in (VERIF_SEED)."""

from .oracle import M, P10, INT_TYPES, OP_INT_TYPES, MODES

I128_MIN = -(1 << 127)


TYPE_BITS = (7, 8, 15, 16, 24, 31, 32, 53, 63, 64, 68, 96, 126)


def type_boundary_coeffs():
    """+-(2^k - 1), +-2^k, +-(2^k + 1) for the widths of the primitive types (narrow-type fast paths)."""
    out = []
    for k in TYPE_BITS:
        for d in (-1, 0, 1):
            v = (1 << k) + d
            if v <= M:
                out += [v, -v]
    return out


TYPE_MAXIMA = ((1 << 31) - 1, (1 << 32) - 1, (1 << 63) - 1, (1 << 64) - 1, M)


def type_scaled_thresholds():
    """(value, k): floor(T / 10^k) + d for the maxima T of the primitive types, k = 1..18, d = -2..2, both signs -
    the thresholds of "does it still fit after scaling by 10^k" tests for every integer width."""
    out = []
    for T in TYPE_MAXIMA:
        for k in range(1, 19):
            base = T // P10[k]
            for d in (-2, -1, 0, 1, 2):
                v = base + d
                if 0 < v <= M:
                    out.append((v, k))
                    out.append((-v, k))
    return out


_TB = None
_TS = None


def coeff(rng):
    """A coefficient in [-M, M], biased towards the places where code branches."""
    global _TB
    global _TS
    k = rng.randrange(18)
    if k == 16:
        if _TB is None:
            _TB = type_boundary_coeffs()
        return rng.choice(_TB)
    if k == 17:
        if _TS is None:
            _TS = type_scaled_thresholds()
        return rng.choice(_TS)[0]
    if k == 0:
        c = rng.choice((0, 1, 2, 5, 9, 10))
    elif k == 1:
        c = P10[rng.randrange(0, 39)]
    elif k == 2:
        c = P10[rng.randrange(0, 39)] + rng.choice((-1, 1))
    elif k == 3:
        c = 5 * P10[rng.randrange(0, 38)]
    elif k == 4:
        c = 1 << rng.randrange(0, 127)
    elif k == 5:
        c = (1 << rng.randrange(1, 128)) + rng.choice((-1, 1))
    elif k == 6:
        c = M - rng.randrange(0, 3)
    elif k == 7:
        # multiple of a power of ten (trailing zeros -> non-normalised)
        j = rng.randrange(1, 25)
        c = rng.randrange(1, max(2, M // P10[j])) * P10[j]
    elif k == 8:
        c = rng.randrange(0, 1 << 64)
    elif k == 9:
        c = M // rng.randrange(1, 1000)
    elif k == 10:
        c = rng.randrange(0, 1000)
    else:
        c = rng.getrandbits(rng.randrange(1, 128))
    if c > M:
        c = M
    if rng.random() < 0.5:
        c = -c
    return c


def small_coeff(rng, bits=64):
    c = rng.getrandbits(rng.randrange(1, bits + 1))
    return -c if rng.random() < 0.5 else c


def scale(rng):
    k = rng.randrange(8)
    if k == 0:
        return 0
    if k == 1:
        return 18
    if k == 2:
        return rng.choice((1, 17, 9))
    return rng.randrange(0, 19)


def dec(rng):
    return coeff(rng), scale(rng)


def representations(c, s):
    """All (coeff, scale) pairs with the same value and |coeff| <= M, scale <= 18."""
    from .oracle import normalize
    c0, s0 = normalize(c, s)
    res = []
    k = 0
    while s0 + k <= 18:
        cc = c0 * P10[k]
        if abs(cc) > M:
            break
        res.append((cc, s0 + k))
        k += 1
    return res


def int_of(rng, ty):
    lo, hi = INT_TYPES[ty]
    k = rng.randrange(12)
    if k == 0:
        v = lo
    elif k == 1:
        v = hi
    elif k == 2:
        v = lo + 1
    elif k == 3:
        v = hi - 1
    elif k == 4:
        v = rng.choice((0, 1, -1, 2, 10))
    elif k == 5:
        v = P10[rng.randrange(0, 39)] * rng.choice((1, -1))
    elif k == 6:
        v = rng.randrange(-10, 11)
    else:
        bits = max(1, hi.bit_length())
        v = rng.getrandbits(rng.randrange(1, bits + 1))
        if lo < 0 and rng.random() < 0.5:
            v = -v
    if v < lo or v > hi:
        v = rng.randrange(lo, hi + 1)
    return v


def int_type(rng):
    return rng.choice(OP_INT_TYPES)


def fI(ty, v):
    return "%s:%d" % (ty, v)


def fD(c, s):
    return "D%d:%d" % (c, s)


def with_modes(reqs_by_mode):
    """reqs_by_mode: dict mode -> list of requests; returns flat list with
    `mode` directives."""
    out = []
    for m in MODES:
        rs = reqs_by_mode.get(m)
        if rs:
            out.append("mode " + m)
            out.extend(rs)
    return out


def near_limit(rng):
    """A coefficient within 2 of +-M or of 2^127 boundaries (clamped to domain)."""
    c = M - rng.randrange(0, 3)
    return -c if rng.random() < 0.5 else c


def wrap_twin(a, k):
    """The i128 value a * 10^k would wrap to (two's complement); None if it does not wrap or leaves the domain."""
    v = a * P10[k]
    if -(M + 1) <= v <= M:
        return None
    w = ((v + (1 << 127)) % (1 << 128)) - (1 << 127)
    return w if abs(w) <= M else None


def split_values(rng, s, n=6):
    """Coefficients Q * 10^s + r that sit at the seams of a split at s digits: r in {0, 1, 10^s - 1, 10^s - 2, half,
    half +- 1}, Q at floor(T / 10^s) +- 2 for the maxima T of the primitive types (where narrow fast paths, reciprocal
    tables and range guards change behaviour), plus random Q. s may be up to 38."""
    t = 10 ** s
    rs = [0, 1, t - 1, t - 2, t // 2, t // 2 + 1, t // 2 - 1]
    # remainders that are multiples of a primitive type's width (a remainder test squeezed into a narrower integer)
    for w in (1 << 32, 1 << 63, 1 << 64):
        for j in (1, 3, rng.randrange(1, 1 << 20)):
            if w * j < t:
                rs.append(w * j)
    qs = []
    for T in TYPE_MAXIMA:
        base = T // t
        for d in (-2, -1, 0, 1):
            if base + d >= 0:
                qs.append(base + d)
    for _ in range(n):
        qs.append(rng.randrange(0, M // t + 1))
    out = []
    for q in qs:
        for r in rs:
            c = q * t + r
            if 0 < c <= M and r >= 0:
                out.append(c)
    return out
