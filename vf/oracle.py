"""Exact reference models (the deciding oracles).

Everything here is written from the property statements, with Python's
unbounded integers. No function looks at fpdec's code paths.

Oracle hygiene: every function is pure and total; exponents / shift counts
are bounded BEFORE any exponentiation.
"""

import re

M = (1 << 127) - 1            # Decimal::MAX coefficient
I128_MIN = -(1 << 127)
I128_MAX = M
MAX_SCALE = 18

MODES = [
    "Round05Up", "RoundCeiling", "RoundDown", "RoundFloor",
    "RoundHalfDown", "RoundHalfEven", "RoundHalfUp", "RoundUp",
]
MODE_INDEX = {m: i for i, m in enumerate(MODES)}
DEFAULT_MODE = "RoundHalfEven"

P10 = [10 ** i for i in range(0, 80)]

INT_TYPES = {
    "u8": (0, (1 << 8) - 1), "i8": (-(1 << 7), (1 << 7) - 1),
    "u16": (0, (1 << 16) - 1), "i16": (-(1 << 15), (1 << 15) - 1),
    "u32": (0, (1 << 32) - 1), "i32": (-(1 << 31), (1 << 31) - 1),
    "u64": (0, (1 << 64) - 1), "i64": (-(1 << 63), (1 << 63) - 1),
    "u128": (0, (1 << 128) - 1), "i128": (-(1 << 127), (1 << 127) - 1),
}
OP_INT_TYPES = ["u8", "i8", "u16", "i16", "u32", "i32", "u64", "i64", "i128"]


def sign(x):
    return (x > 0) - (x < 0)


def round_ratio(num, den, mode):
    """Integer nearest to num/den selected by `mode` (den != 0)."""
    if den < 0:
        num, den = -num, -den
    s = -1 if num < 0 else 1
    n = -num if num < 0 else num
    q, r = divmod(n, den)
    if r == 0:
        return s * q
    if mode == "RoundHalfEven":
        inc = 2 * r > den or (2 * r == den and (q & 1) == 1)
    elif mode == "RoundHalfUp":
        inc = 2 * r >= den
    elif mode == "RoundHalfDown":
        inc = 2 * r > den
    elif mode == "RoundDown":
        inc = False
    elif mode == "RoundUp":
        inc = True
    elif mode == "RoundCeiling":
        inc = s > 0
    elif mode == "RoundFloor":
        inc = s < 0
    elif mode == "Round05Up":
        inc = q % 10 in (0, 5)
    else:
        raise ValueError("unknown mode " + str(mode))
    return s * (q + (1 if inc else 0))


def fits(c):
    """'fit' | 'edge' (== -2^127: inside i128, outside Decimal) | 'ovf'."""
    if -M <= c <= M:
        return "fit"
    if c == I128_MIN:
        return "edge"
    return "ovf"


def in_i128(c):
    return I128_MIN <= c <= I128_MAX


def normalize(c, s):
    """Strip trailing fractional zeros; zero -> scale 0."""
    if c == 0:
        return 0, 0
    while s > 0 and c % 10 == 0:
        c //= 10
        s -= 1
    return c, s


def value_eq(c1, s1, c2, s2):
    return c1 * P10[s2] == c2 * P10[s1]


def trunc_div(a, b):
    q = abs(a) // abs(b)
    return q if (a < 0) == (b < 0) else -q


def n_digits(x):
    """Number of decimal digits of |x| (x != 0)."""
    return len(str(abs(x)))


# ---------------------------------------------------------------------------
# binary floating point

def to_binary(num, den, mant_bits, exp_bits):
    """IEEE-754 bit pattern nearest to num/den (den > 0), ties to even.

    mant_bits = precision including the hidden bit (53 / 24).
    Returns the bit pattern as int (sign | exponent | fraction).
    """
    total_bits = exp_bits + mant_bits  # sign + exp + (mant-1)
    bias = (1 << (exp_bits - 1)) - 1
    emin = 1 - bias
    sign_bit = 1 if num < 0 else 0
    n = -num if num < 0 else num
    if n == 0:
        return 0  # the property wants +0.0 for every zero
    # e = floor(log2(n/den)) estimated from bit lengths, then corrected
    e = n.bit_length() - den.bit_length()
    # 2^e <= n/den  <=>  den * 2^e <= n
    if e >= 0:
        if den << e > n:
            e -= 1
    else:
        if den > n << (-e):
            e -= 1
    if e < emin:
        e = emin  # subnormal: fixed exponent
    # m = round(n/den / 2^(e - (mant_bits-1)))
    sh = e - (mant_bits - 1)
    if sh >= 0:
        m = round_ratio(n, den << sh, "RoundHalfEven")
    else:
        m = round_ratio(n << (-sh), den, "RoundHalfEven")
    if m >= 1 << mant_bits:
        m >>= 1  # exactly 2^mant_bits (carry), stays exact
        e += 1
    if m < 1 << (mant_bits - 1):
        biased = 0  # subnormal
        frac = m
    else:
        biased = e + bias
        frac = m - (1 << (mant_bits - 1))
    if biased >= (1 << exp_bits) - 1:
        biased = (1 << exp_bits) - 1
        frac = 0  # infinity
    return (sign_bit << (total_bits - 1)) | (biased << (mant_bits - 1)) | frac


def f64_bits(num, den):
    return to_binary(num, den, 53, 11)


def f32_bits(num, den):
    return to_binary(num, den, 24, 8)


def decode_float(bits, mant_bits, exp_bits):
    """-> ('nan'|'inf'|'num', sign, m, e) with value = sign * m * 2^e."""
    total = exp_bits + mant_bits
    s = -1 if bits >> (total - 1) else 1
    be = (bits >> (mant_bits - 1)) & ((1 << exp_bits) - 1)
    frac = bits & ((1 << (mant_bits - 1)) - 1)
    bias = (1 << (exp_bits - 1)) - 1
    if be == (1 << exp_bits) - 1:
        return ("inf" if frac == 0 else "nan", s, 0, 0)
    if be == 0:
        return ("num", s, frac, 1 - bias - (mant_bits - 1))
    return ("num", s, frac | (1 << (mant_bits - 1)), be - bias - (mant_bits - 1))


def float_to_decimal(bits, mant_bits, exp_bits):
    """Expected Decimal::try_from(float): ('ok', c, s) | ('err', kind) |
    ('dontcare',)."""
    kind, s, m, e = decode_float(bits, mant_bits, exp_bits)
    if kind == "nan":
        return ("err", "NotANumber")
    if kind == "inf":
        return ("err", "InfiniteValue")
    if m == 0:
        return ("ok", 0, 0)
    if e >= 0:
        if m.bit_length() + e > 128:
            return ("err", "InternalOverflow")
        v = s * (m << e)
        f = fits(v)
        if f == "fit":
            return ("ok", v, 0)
        if f == "edge":
            return ("dontcare",)
        return ("err", "InternalOverflow")
    k = -e
    if k > 200:
        # |v| < 2^53 / 2^200: far below half a unit in the 18th digit
        return ("ok", 0, 0)
    c = round_ratio(s * m * P10[18], 1 << k, "RoundHalfEven")
    c, sc = normalize(c, 18)
    f = fits(c)
    if f == "fit":
        return ("ok", c, sc)
    if f == "edge":
        return ("dontcare",)
    return ("err", "InternalOverflow")


# ---------------------------------------------------------------------------
# literals

_LIT = re.compile(r"([+-]?)(?:([0-9]+)(?:(\.)([0-9]*))?|\.([0-9]+))(?:[eE]([+-]?)([0-9]+))?")


def parse_literal(s):
    """Expected outcome of Decimal::from_str(s):
    ('empty',) | ('invalid',) | ('ok', coeff, scale) | ('toolarge', why).

    'invalid' : not in the grammar (must be Err)
    'toolarge': in the grammar, but value not representable (must be Err)
    """
    if s == "":
        return ("empty",)
    m = _LIT.fullmatch(s)
    if m is None:
        return ("invalid",)
    sgn, ipart, _dot, fpart, fonly, esgn, edigits = m.groups()
    if ipart is None:
        ipart, fpart = "", fonly
    if fpart is None:
        fpart = ""
    digits = (ipart + fpart).lstrip("0")
    if len(digits) > 60:
        # more than 60 significant digits: the coefficient exceeds 2^127 whatever the exponent is
        # (never convert unbounded digit strings: oracle hygiene)
        return ("toolarge", "coeff")
    coeff = int(digits) if digits else 0
    if sgn == "-":
        coeff = -coeff
    if edigits is None:
        exp = 0
    else:
        ed = edigits.lstrip("0")
        if len(ed) > 18:
            exp = 10 ** 18  # "huge" (a literal cannot have 10^18 fraction digits); bounded before any use
        else:
            exp = int(ed) if ed else 0
        if esgn == "-":
            exp = -exp
    net = exp - len(fpart)
    if -net > MAX_SCALE:
        return ("toolarge", "frac")
    if net <= 0:
        if abs(coeff) > M:
            return ("toolarge", "coeff")
        return ("ok", coeff, -net)
    if coeff == 0:
        return ("ok", 0, 0)
    if net > 40:
        return ("toolarge", "coeff")
    c = coeff * P10[net]
    if abs(c) > M:
        return ("toolarge", "coeff")
    return ("ok", c, 0)


def canonical_str(c, s):
    """The canonical text of Decimal(c, s) per C07."""
    if s == 0:
        return str(c)
    ip, fp = divmod(abs(c), P10[s])
    return ("-" if c < 0 else "") + str(ip) + "." + str(fp).rjust(s, "0")


# ---------------------------------------------------------------------------
# formatting (C11)

def fmt_expected(c, s, mode, flags, width, prec):
    """Expected output of format!("{:<flags><width>.<prec>}", Decimal(c, s)).

    flags: dict(fill=char or None, align '<'|'^'|'>'|None, plus bool, zero bool)
    """
    p = s if prec is None else min(prec, MAX_SCALE)
    if p >= s:
        coeff = abs(c) * P10[p - s]
    else:
        coeff = abs(round_ratio(c, P10[s - p], mode))
    ip, fp = divmod(coeff, P10[p])
    body = str(ip)
    if p > 0:
        body += "." + str(fp).rjust(p, "0")
    if c < 0:
        sgn = "-"
    elif flags.get("plus"):
        sgn = "+"
    else:
        sgn = ""
    text_len = len(sgn) + len(body)
    if width is None or width <= text_len:
        return sgn + body
    pad = width - text_len
    if flags.get("zero"):
        return sgn + "0" * pad + body
    fill = flags.get("fill") or " "
    align = flags.get("align") or ">"
    if align == "<":
        return sgn + body + fill * pad
    if align == "^":
        left = pad // 2
        return fill * left + sgn + body + fill * (pad - left)
    return fill * pad + sgn + body


# ---------------------------------------------------------------------------
# self tests (run at the start of every check; a failure is a harness error)

class OracleSelfTestError(Exception):
    pass


_PY_MODES = None


def _py_modes():
    import decimal
    return {
        "Round05Up": decimal.ROUND_05UP, "RoundCeiling": decimal.ROUND_CEILING,
        "RoundDown": decimal.ROUND_DOWN, "RoundFloor": decimal.ROUND_FLOOR,
        "RoundHalfDown": decimal.ROUND_HALF_DOWN,
        "RoundHalfEven": decimal.ROUND_HALF_EVEN,
        "RoundHalfUp": decimal.ROUND_HALF_UP, "RoundUp": decimal.ROUND_UP,
    }


def selftest(rng):
    """Cross-check the oracles against independent implementations."""
    import decimal
    from fractions import Fraction
    n = 0
    ctx = decimal.Context(prec=200)
    pm = _py_modes()
    # 1. round_ratio vs libmpdec quantize, all classes x 8 modes
    cases = []
    for sgn in (1, -1):
        for last in range(10):
            for frac in (0, 1, 49, 50, 51, 99):
                cases.append((sgn * (1230 + last) * 100 + sgn * frac, 100))
                cases.append((sgn * (last * 100 + frac), 100))
    for _ in range(500):
        den = 10 ** rng.randrange(1, 30)
        num = rng.randrange(-10 ** 40, 10 ** 40)
        cases.append((num, den))
        q = rng.randrange(-10 ** 20, 10 ** 20)
        cases.append((q * den + rng.choice((-1, 1)) * den // 2, den))
    for num, den in cases:
        k = len(str(den)) - 1
        d = ctx.create_decimal(num).scaleb(-k, context=ctx)
        for mode in MODES:
            want = int(d.quantize(decimal.Decimal(1), rounding=pm[mode], context=ctx))
            got = round_ratio(num, den, mode)
            n += 1
            if got != want:
                raise OracleSelfTestError(
                    "round_ratio(%d, %d, %s) = %d, libmpdec says %d" % (num, den, mode, got, want))
    # negative denominators and non-power-of-ten denominators vs Fraction
    for _ in range(300):
        den = rng.choice((2, 3, 4, 5, 7, 8, 20, 625, 1 << 40, 3 ** 20))
        num = rng.randrange(-10 ** 25, 10 ** 25)
        fl = num // den
        if round_ratio(num, den, "RoundFloor") != fl or round_ratio(num, den, "RoundCeiling") != -((-num) // den):
            raise OracleSelfTestError("floor/ceiling mismatch %d/%d" % (num, den))
        if round_ratio(num, -den, "RoundHalfEven") != round(Fraction(num, -den)):
            raise OracleSelfTestError("half-even mismatch %d/%d" % (num, -den))
        n += 3
    # 2. to_binary vs CPython's correctly rounded int/int division, and the
    #    nearest-neighbour definition for f32
    import struct
    for _ in range(1500):
        s = rng.randrange(0, 19)
        c = rng.randrange(1, 1 << rng.randrange(1, 127))
        want = struct.unpack("<Q", struct.pack("<d", c / P10[s]))[0]
        got = f64_bits(c, P10[s])
        n += 1
        if got != want:
            raise OracleSelfTestError("f64_bits(%d, 10^%d) = %x, CPython says %x" % (c, s, got, want))
        b32 = f32_bits(c, P10[s])
        v = Fraction(c, P10[s])
        kind, sg, m, e = decode_float(b32, 24, 8)

        def fval(bits):
            k, sg2, m2, e2 = decode_float(bits, 24, 8)
            return Fraction(sg2 * m2) * (Fraction(2) ** e2)
        r = fval(b32)
        lo, hi = fval(b32 - 1), fval(b32 + 1)
        n += 1
        if not (abs(v - r) <= abs(v - lo) and abs(v - r) <= abs(v - hi)):
            raise OracleSelfTestError("f32_bits(%d, 10^%d) is not nearest" % (c, s))
        if (abs(v - r) == abs(v - lo) or abs(v - r) == abs(v - hi)) and (b32 & 1):
            raise OracleSelfTestError("f32_bits(%d, 10^%d) tie not to even" % (c, s))
    # 3. float_to_decimal vs decimal module
    for _ in range(500):
        bits = rng.randrange(0, 1 << 64)
        f = struct.unpack("<d", struct.pack("<Q", bits))[0]
        exp = float_to_decimal(bits, 53, 11)
        n += 1
        if f != f or f in (float("inf"), float("-inf")):
            continue
        d = ctx.create_decimal(f)
        if abs(d) >= decimal.Decimal(1 << 127):
            if exp[0] not in ("err", "dontcare"):
                raise OracleSelfTestError("float_to_decimal(%x): expected overflow" % bits)
            continue
        q = d.quantize(decimal.Decimal(1).scaleb(-18), rounding=decimal.ROUND_HALF_EVEN, context=ctx)
        c = int(q.scaleb(18, context=ctx))
        if exp[0] == "ok":
            if c * P10[exp[2]] != exp[1] * P10[18]:
                raise OracleSelfTestError("float_to_decimal(%x) = %r, decimal says %d e-18" % (bits, exp, c))
        elif exp[0] == "err" and abs(c) <= M:
            raise OracleSelfTestError("float_to_decimal(%x) = %r but value fits" % (bits, exp))
    # 4. parse_literal on fixed points
    fixed = {
        "": ("empty",), "1": ("ok", 1, 0), "-1.50": ("ok", -150, 2), ".5": ("ok", 5, 1),
        "1.": ("ok", 1, 0), "0.": ("ok", 0, 0), "1e3": ("ok", 1000, 0), "1.5E-2": ("ok", 15, 3),
        "1e": ("invalid",), "1e+": ("invalid",), ".": ("invalid",), "--1": ("invalid",),
        "1_0": ("invalid",), " 1": ("invalid",), "1\n": ("invalid",), "١": ("invalid",),
        "0e5": ("ok", 0, 0), "1e-19": ("toolarge", "frac"), "0.0000000000000000001e1": ("ok", 1, 18),
        "170141183460469231731687303715884105727": ("ok", M, 0),
        "170141183460469231731687303715884105728": ("toolarge", "coeff"),
        "-170141183460469231731687303715884105728": ("toolarge", "coeff"),
        "1e38": ("ok", 10 ** 38, 0), "1e39": ("toolarge", "coeff"),
        "1e99999999999999999999": ("toolarge", "coeff"), "1e-99999999999999999999": ("toolarge", "frac"),
        "0e99999999999999999999": ("ok", 0, 0),
    }
    for lit, want in fixed.items():
        n += 1
        if parse_literal(lit) != want:
            raise OracleSelfTestError("parse_literal(%r) = %r, want %r" % (lit, parse_literal(lit), want))
    # 5. fmt_expected vs Python's own formatting of decimal (HalfEven)
    for _ in range(300):
        s = rng.randrange(0, 19)
        c = rng.randrange(-10 ** 25, 10 ** 25)
        p = rng.randrange(0, 25)
        w = rng.randrange(1, 40)
        d = ctx.create_decimal(c).scaleb(-s, context=ctx)
        pe = min(p, 18)
        for flags, spec in (({}, ">%d.%df" % (w, pe)), ({"align": "<"}, "<%d.%df" % (w, pe)),
                            ({"zero": True}, "0%d.%df" % (w, pe)), ({"plus": True}, "+%d.%df" % (w, pe)),
                            ({"fill": "*", "align": "^"}, "*^%d.%df" % (w, pe))):
            with decimal.localcontext(ctx):
                want = format(d, spec)
            got = fmt_expected(c, s, "RoundHalfEven", flags, w, p)
            n += 1
            # Python centres with the extra fill on the right as well, and
            # never prints "-0"; skip those two known differences
            if d != 0 and round_ratio(c, P10[max(s - pe, 0)], "RoundHalfEven") == 0 and c < 0:
                continue
            if got != want:
                raise OracleSelfTestError("fmt_expected(%d,%d,%r,%d,%d) = %r, Python says %r" % (c, s, flags, w, p, got, want))
    return n
